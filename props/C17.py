"""C17  Text-block formatting preserves the words and respects indentation and width."""
import itertools

ID = 'C17'
HARNESS = {'name': 'c17', 'sources': ['harness/c17_harness.cpp'],
           'repo_sources': ['library/format/text_block.cpp'], 'sanitize': True}

RULE = ('case = indent x width x first-line mode x text. Exhaustive small scope: every text of up to N tokens, a token '
        'being a word of length 1..3 (leading dash or not) or the forced-break token "nn", joined by a blank or a '
        'newline, for widths 4..8, indents 0..3 and both first-line modes; plus all texts of up to 2 words over the '
        'full alphabet {x,-}. Random: widths 20..120, words up to width+5 characters, list lines starting with a dash, '
        '"nn" tokens, empty lines and repeated blanks. A case is non-trivial when the output has more than one line.')
TRUSTED_BASE = [
    'model Text/TextBlockModel.v written by hand from text_block.cpp; tokens = boost::char_separator with '
    'drop_empty_tokens is modelled library behaviour; tied by the correspondence check (this run) on the complete '
    'text written to the stream',
    'extraction: ExtrOcamlBasic only; nat and N stay extracted datatypes; ocaml/c17_driver.ml does I/O only',
    'C++ harness harness/c17_harness.cpp (std::ostringstream as destination, g++ -O1, ASan+UBSan)',
]
ASSUMPTIONS = [
    'indent and width are non-negative ints (a negative indent makes the std::string constructor throw, a negative '
    'width becomes a huge size_t); currLength + word length + 1 does not wrap in size_t',
    'the stream is empty / at the start of a line when format() is called with indentFirst = true; with '
    'indentFirst = false the caller has already written exactly indent characters on the current line',
]


def _hex(s):
    return s.encode('latin-1').hex() if s else '-'


def _unhex(h):
    return '' if h == '-' else bytes.fromhex(h).decode('latin-1')


def _case(ind, width, first, txt):
    return '%d %d %d %s' % (ind, width, 1 if first else 0, _hex(txt))


REP_WORDS = ['x', '-', 'xx', '-x', 'xxx', '-xx']
ALL_WORDS = [''.join(p) for n in (1, 2, 3) for p in itertools.product('x-', repeat=n)]

CORPUS = [
    (2, 10, True, 'a too-long-first-word here'),
    (0, 5, True, '- ab nn cd ef gh'),
    (3, 8, False, '- ab nn cdefgh nn nn x'),
    (1, 6, True, 'ab\n\n\ncd  ef \n gh'),
    (4, 3, True, 'x y'),
    (3, 3, False, '- x nn y'),
    (0, 1, True, 'x y z'),
    (0, 0, True, 'x'),
    (2, 20, True, ''),
    (2, 20, False, ' '),
    (2, 20, True, '\n'),
    (2, 12, True, '-first entry is long nn second\n-b nn c'),
]


def _texts(tokens, maxn):
    for n in range(1, maxn + 1):
        for ws in itertools.product(tokens, repeat=n):
            for seps in itertools.product(' \n', repeat=n - 1):
                t = ws[0]
                for s, w in zip(seps, ws[1:]):
                    t += s + w
                yield t


def gen_cases(tier, rng):
    cases = [_case(*c) for c in CORPUS]
    maxn = 3 if tier == 'quick' else 4
    indents = [0, 1, 2, 3] if tier == 'quick' else [0, 1, 3]
    for txt in _texts(REP_WORDS + ['nn'], maxn):
        for width in range(4, 9):
            for ind in indents:
                for first in (True, False):
                    cases.append(_case(ind, width, first, txt))
    for txt in _texts(ALL_WORDS + ['nn'], 2):
        for width in range(4, 9):
            for ind in range(0, 4):
                for first in (True, False):
                    cases.append(_case(ind, width, first, txt))
    nrand = 3000 if tier == 'quick' else 30000
    letters = 'abcdefghijklmnopqrstuvwxyzn'
    for _ in range(nrand):
        width = rng.range(20, 120)
        ind = rng.range(0, 30) if not rng.chance(1, 25) else rng.range(width - 2, width + 3)
        first = rng.chance(1, 2)
        nlines = rng.range(1, 4)
        lines = []
        for _ in range(nlines):
            nw = rng.range(0, 30)
            ws = []
            for k in range(nw):
                r = rng.below(30)
                room = max(1, width - ind)
                if r == 0:
                    l = width + rng.range(-2, 5)
                elif r <= 2:
                    # aim at the boundary: a word that ends at, one before or one after the width
                    l = max(1, room - rng.range(0, 6))
                elif r == 3:
                    ws.append('nn')
                    continue
                elif r == 4:
                    ws.append('n')
                    continue
                else:
                    l = rng.range(1, 12)
                w = ''.join(rng.choice(letters) for _ in range(l))
                if rng.chance(1, 20):
                    w = '-' + w[1:]
                if w == 'nn' and not rng.chance(1, 2):
                    w = 'nm'
                ws.append(w)
            if ws and rng.chance(1, 2):
                ws[0] = '-' + ws[0] if ws[0] != 'nn' else '-'
            sep = ' ' if not rng.chance(1, 10) else '  '
            line = sep.join(ws)
            if rng.chance(1, 15):
                line = ' ' + line
            if rng.chance(1, 15):
                line += ' '
            lines.append(line)
        txt = '\n'.join(lines)
        if rng.chance(1, 20):
            txt += '\n'
        cases.append(_case(ind, width, first, txt))
    return {'cases': cases, 'exhaustive': True,
            'scopes': ['exhaustive: texts of 1..%d tokens from %s + "nn" joined by blank/newline, widths 4..8, '
                       'indents %s, both first-line modes' % (maxn, REP_WORDS, indents),
                       'exhaustive: texts of 1..2 tokens from all words of length 1..3 over {x,-} + "nn", widths 4..8, '
                       'indents 0..3, both modes',
                       'random: %d texts, widths 20..120, indents 0..30 (some around the width), 1..4 input lines of '
                       '0..30 words, words up to width+5, list lines, nn' % nrand]}


def _parse(case):
    w = case.split(' ')
    return int(w[0]), int(w[1]), w[2] == '1', _unhex(w[3])


def histogram_keys(case, mr):
    ind, width, first, txt = _parse(case)
    keys = ['width<=8' if width <= 8 else 'width>=20', 'first=%d' % first]
    if 'nn' in txt.replace('\n', ' ').split(' '):
        keys.append('nn')
    if any(l.lstrip(' ').startswith('-') for l in txt.split('\n')):
        keys.append('list')
    return keys


def nontrivial(case, mr):
    out = mr.split(' ##')[0].strip()
    return '0a' in [out[i:i + 2] for i in range(0, len(out), 2)]


def _violation(case, ir):
    """the property restated on the text written by the implementation; returns (label, reason) or None"""
    if ir is None:
        return 'crash', 'no result from the implementation'
    if 'CRASH' in ir:
        return 'crash', 'memory error / abort in the implementation: ' + ir
    res = ir.split(' ##')[0].strip()
    if res.startswith('E:'):
        return 'crash', 'exception: ' + res
    ind, width, first, txt = _parse(case)
    try:
        out = _unhex(res)
    except ValueError:
        return 'crash', 'unparsable result ' + res[:60]
    in_lines = [[w for w in l.split(' ') if w] for l in txt.split('\n') if l]
    if not in_lines:
        return None if out == '' else ('words', 'output for a text without lines')
    out_lines = out.split('\n')
    # words: order, multiplicity, no split; nn consumed
    want = [(w, i) for i, l in enumerate(in_lines) for w in l if w != 'nn']
    got = [(w, j) for j, l in enumerate(out_lines) for w in l.split(' ') if w]
    if [w for w, _ in got] != [w for w, _ in want]:
        return 'words', 'words of the output %r differ from the words of the input %r' % (
            [w for w, _ in got][:12], [w for w, _ in want][:12])
    # indentation
    for j, l in enumerate(out_lines):
        if j == 0 and not first:
            continue
        if not l.startswith(' ' * ind):
            return 'indent', 'output line %d %r does not start with %d blanks' % (j, l[:20], ind)
    # explicit newlines start a new line
    for (w1, i1), (w2, i2), (_, j1), (_, j2) in zip(want, want[1:], got, got[1:]):
        if i1 != i2 and j1 == j2:
            return 'newline', 'words %r and %r of different input lines share output line %d' % (w1, w2, j1)
    if len(out_lines) < len(in_lines):
        return 'newline', '%d output lines for %d input lines' % (len(out_lines), len(in_lines))
    # width
    for j, l in enumerate(out_lines):
        n = len(l) + (ind if j == 0 and not first else 0)
        if n > width and len([w for w in l.split(' ') if w]) > 1:
            return 'width', 'output line %d %r is %d long (width %d) and holds more than one word' % (j, l, n, width)
    return None


def spec_check(case, ir, mr):
    v = _violation(case, ir)
    return v[1] if v else None


def classify(case, ir, mr):
    v = _violation(case, ir)
    return v[0] if v else 'unclassified'


def shrink(case):
    ind, width, first, txt = _parse(case)
    toks = []
    for i, l in enumerate(txt.split('\n')):
        if i:
            toks.append('\n')
        toks += [w for w in l.split(' ') if w]
    def build(ts):
        s = ''
        for t in ts:
            if t == '\n':
                s = s.rstrip(' ') + '\n'
            else:
                s += t + ' '
        return s.rstrip(' ')
    if len(toks) > 3:
        h = len(toks) // 2
        yield _case(ind, width, first, build(toks[:h]))
        yield _case(ind, width, first, build(toks[h:]))
        q = len(toks) // 4
        yield _case(ind, width, first, build(toks[q:len(toks) - q]))
    for i in range(len(toks)):
        yield _case(ind, width, first, build(toks[:i] + toks[i + 1:]))
    for i, t in enumerate(toks):
        if t != '\n' and t != 'nn' and len(t) > 1:
            yield _case(ind, width, first, build(toks[:i] + [t[:-1]] + toks[i + 1:]))
    if ind > 0:
        yield _case(ind - 1, width, first, txt)
    if width > 1:
        yield _case(ind, width - 1, first, txt)


CLAIM = {
    'text': 'Coq theorems (Properties_C17.v) over an executable model of TextBlock::format/formatLine: for every '
            'indentation, width, first-line mode and text the words of the output are the words of the input without '
            'the "nn" tokens (order, multiplicity, unsplit); each non-empty input line is written as its own group of '
            'output lines; every line (the first when requested) starts with the indentation; a line longer than the '
            'width holds exactly one word (or no word at all when the indentation alone reaches the width). The model '
            'is tied to the code by a correspondence check on the complete text written (exhaustive for small '
            'scopes, ASan+UBSan build of text_block.cpp).',
    'note': 'trusted: Coq kernel, extraction (ExtrOcamlBasic), the hand-written model incl. the modelled behaviour of '
            'boost::char_separator (validated by correspondence on every run); domain: non-negative indent and width; '
            'with indentFirst=false the first line is measured including the indent characters the caller wrote',
    'technique': 'Coq proof by induction over the words of a line (loop invariant on current length / open line / '
                 'completed lines) and over the input lines; model/implementation correspondence, exhaustive small scopes',
    'design_ref': 'DESIGN.md section 5, C17',
}
