"""C02  No command line that breaks a declared rule is silently accepted."""
import os
import sys
sys.path.insert(0, os.path.dirname(__file__))
import args_common as A
import args_gen as G

ID = 'C02'
MODEL_ID = 'ARGS'
HARNESS = A.HARNESS
INTERNAL_COMPARABLE = False   # behind '##' the harness prints exception class / texts, the driver a note: never equal
RULE = ('a case = random well-formed configuration (2-6 arguments: flags, int, string, optional<int>, vector<int>, '
        'vector<string> with mandatory flag, checks, formats, cardinalities, requires/excludes, list options, handler '
        'constraints) + a valid abstract line + ONE rule-breaking mutation (see args_gen.MUTATIONS) + a random legal '
        'spelling of the result; token exp:reject marks what the property demands. Valid lines (exp:ok with the '
        'expected values) are mixed in so that the tie covers both outcomes. Non-trivial: the configuration is '
        'accepted (no setup error).')
TRUSTED_BASE = [
    'model ArgH/{Key,Table,Lex,Handler,Split,Sources}.v written by hand from the prog_args sources; tied by the '
    'correspondence check through the real Handler on outcome and destination values',
    'extraction: ExtrOcamlBasic only; ocaml/args_driver.ml translates the configuration language into the model cfg '
    '(setup refusals of the option setters are decided in the driver, mirrored from typed_arg_base.hpp)',
    'C++ harness harness/args_harness.cpp (g++ 12 -O1, ASan+UBSan)',
]
ASSUMPTIONS = ['destination kinds outside the model (containers other than vector, arrays, tuples, bitsets, maps, '
               'level counter, pairs, ranges), sub-groups, command mode, bracket handlers and value constraints '
               'differ/disjoint are outside the theorems',
               'boost::lexical_cast<int> accepts exactly an optional sign followed by decimal digits within the range '
               'of int (modelled; checked by the tie)']


def gen_cases(tier, rng):
    n = 1600 if tier == 'quick' else 12000
    cases = []
    stats = {}
    # corpus: pinned-tree witnesses first
    cases.append('H:f=0 arg:l,left:b0:init=0/excl=r arg:r,right:b1:init=0 argv:2d6c,2d2d7269676874 exp:reject mut:excluded-after')
    # exhaustive small scope for the value constraints: differ over 2..4 int arguments in every list order of a
    # rotation, every subset used, every choice of an equal pair (reject) and all distinct (accept); disjoint over
    # two vectors with the common element at every position
    import itertools
    names = ['p', 'b', 'q', 'r']
    for k in (2, 3, 4):
        for rot in range(k):
            order = names[rot:k] + names[:rot]
            defs = ' '.join('arg:%s:i%d:' % (nm, j) for j, nm in enumerate(names[:k]))
            con = 'con:differ:' + ';'.join(order)
            for used in itertools.product([0, 1], repeat=k):
                idx = [j for j in range(k) if used[j]]
                if not idx:
                    continue
                vals = {j: 10 + j for j in idx}
                w = [x for j in idx for x in ('-' + names[j], str(vals[j]))]
                exp = ';'.join('i%d=%d' % (j, vals.get(j, 0)) for j in range(k))
                cases.append('H:f=0 %s %s %s exp:%s mut:none' % (defs, con, A.argv_tok(w), exp))
                for (x, y) in itertools.combinations(idx, 2):
                    v2 = dict(vals); v2[y] = v2[x]
                    w = [z for j in idx for z in ('-' + names[j], str(v2[j]))]
                    cases.append('H:f=0 %s %s %s exp:reject mut:break-value-constraint' % (defs, con, A.argv_tok(w)))
    for la, lb in itertools.product([[1], [3, 1], [1, 3], [5, 3, 1], [3, 5, 1, 4]], [[1], [2, 1], [1, 2], [9, 8, 1], [7]]):
        w = ['-a', ','.join(map(str, la)), '-b', ','.join(map(str, lb))]
        common = set(la) & set(lb)
        exp = 'reject' if common else 'vi0=[%s];vi1=[%s]' % (','.join(map(str, la)), ','.join(map(str, lb)))
        cases.append('H:f=0 arg:a:vi0: arg:b:vi1: con:disjoint:a;b %s exp:%s mut:%s'
                     % (A.argv_tok(w), exp, 'break-value-constraint' if common else 'none'))
    # one argument under a requirement of a and an exclusion of b at the same time (and the two on different
    # arguments): a, b in both orders, then every subset of c, d - the pending entries of one argument are all
    # looked at, in whatever order they were stored
    for ra, xb in itertools.product('cd', repeat=2):
        defs = 'arg:a:b0:init=0/req=%s arg:b:b1:init=0/excl=%s arg:c:i0: arg:d:i1:' % (ra, xb)
        for first in ('ab', 'ba'):
            for used in itertools.product([0, 1], repeat=2):
                tail = [nm for nm, u_ in zip('cd', used) if u_]
                for tl in (tail, tail[::-1]):
                    w = ['-' + first[0], '-' + first[1]] + [x for nm in tl for x in ('-' + nm, '5')]
                    ok = ra in tl and xb not in tl
                    if ok:
                        exp = 'b0=1;b1=1;' + ';'.join('i%d=%d' % (j, 5 if nm in tl else 0) for j, nm in enumerate('cd'))
                        cases.append('H:f=0 %s %s exp:%s mut:none' % (defs, A.argv_tok(w), exp))
                    else:
                        cases.append('H:f=0 %s %s exp:reject mut:%s' % (defs, A.argv_tok(w),
                                     'excluded-after' if xb in tl else 'required-missing'))
        # every order of a, b and the arguments they refer to (the model decides, no expectation given)
        for perm in itertools.permutations(['a', 'b', 'c', 'd']):
            w = [x for nm in perm for x in (('-' + nm,) if nm in 'ab' else ('-' + nm, '7'))]
            cases.append('H:f=0 %s %s' % (defs, A.argv_tok(w)))
    # an argument of an all_of / any_of / one_of list that may be used several times (no cardinality limit, a
    # container, multi-value): every use counts as the one argument it is
    for con_, members in (('all_of', 'v;n'), ('all_of', 'n;v;f'), ('one_of', 'v;f'), ('any_of', 'v;f')):
        defs = 'arg:v:vi0: arg:n:i0:card=none arg:f:b0:init=0 con:%s:%s' % (con_, members)
        for w in (['-v', '1', '-v', '2'], ['-v', '1', '-v', '2', '-n', '3'], ['-n', '1', '-n', '2'], ['-n', '1', '-n', '2', '-v', '4'],
                  ['-v', '1', '-v', '2', '-v', '3'], ['-v', '1,2', '-n', '5', '-f'], ['-v', '1', '-n', '2', '-v', '3', '-n', '4', '-f'],
                  ['-f'], ['-v', '1', '-f'], ['-n', '1']):
            cases.append('H:f=0 %s %s' % (defs, A.argv_tok(w)))
    # exhaustive small scope for constraint lists that share entries: flags a and b with two-entry requires /
    # excludes lists over the int arguments c, d, e (every ordered pair for each), a and b used in both orders, then
    # every subset of c, d, e.  Accepted exactly when all required arguments are used / no excluded argument is used.
    pairs = list(itertools.permutations('cde', 2))
    for kind_ in ('req', 'excl'):
        for la, lb in itertools.product(pairs, pairs):
            defs = ('arg:a:b0:init=0/%s=%s arg:b:b1:init=0/%s=%s arg:c:i0: arg:d:i1: arg:e:i2:'
                    % (kind_, ';'.join(la), kind_, ';'.join(lb)))
            for first in ('ab', 'ba'):
                for used in itertools.product([0, 1], repeat=3):
                    tail = [nm for nm, u_ in zip('cde', used) if u_]
                    w = ['-' + first[0], '-' + first[1]] + [x for nm in tail for x in ('-' + nm, '5')]
                    refd = set(la) | set(lb)
                    ok = refd <= set(tail) if kind_ == 'req' else not (refd & set(tail))
                    if ok:
                        exp = 'b0=1;b1=1;' + ';'.join('i%d=%d' % (j, 5 if nm in tail else 0) for j, nm in enumerate('cde'))
                        cases.append('H:f=0 %s %s exp:%s mut:none' % (defs, A.argv_tok(w), exp))
                    else:
                        cases.append('H:f=0 %s %s exp:reject mut:%s' % (defs, A.argv_tok(w),
                                     'required-missing' if kind_ == 'req' else 'excluded-after'))
    # the cardinality counts again behind a file named on the command line (the read mode "file" ends with the file)
    afx = 'H:f=0 arg:i:i0: arg:n:s0: arg:v:vi0:card=max~3 arg:arg-file:af0: xfile:%s:' % A.hx('f1.pa')
    for content, words, exp in (
            ('-n x\n', ['--arg-file', 'f1.pa', '-i', '1', '-i', '2'], 'reject'),
            ('-n x\n', ['-i', '1', '--arg-file', 'f1.pa', '-i', '2'], 'reject'),
            ('-i 7\n', ['--arg-file', 'f1.pa', '-i', '1', '-i', '2'], 'reject'),
            ('-i 7\n', ['--arg-file', 'f1.pa', '-i', '1'], 'i0=1;s0=s-;vi0=[]'),
            ('-v 9\n', ['--arg-file=f1.pa', '-v', '1', '-v', '2', '-v', '3', '-v', '4'], 'reject'),
            ('-v 9\n', ['--arg-file=f1.pa', '-v', '1', '-v', '2', '-v', '3'], 'i0=0;s0=s-;vi0=[9,1,2,3]'),
            ('-n x\n', ['--arg-file', 'f1.pa', '--arg-file', 'f1.pa'], 'reject'),
            ('-n x\n', ['--arg-file', 'f1.pa', '-n', 'y', '-n', 'z'], 'reject')):
        cases.append('%s%s %s exp:%s mut:%s' % (afx, A.hx(content), A.argv_tok(words), exp,
                                                 'duplicate' if exp == 'reject' else 'none'))
    # a sub-group argument (ArgH/SubGroup.v): what the sub-group handler does not
    # know is evaluated by the main handler - unknown keys and stray values behind the sub-group key are refused
    sgb = 'H:f=0 arg:v:b0:init=0 arg:n:i0: S:o,output:f=0 arg:f,file:s0: arg:q:b1:init=0 '
    for w, exp in ((['-o', '-x'], 'reject'), (['-o', '-x', '-v'], 'reject'), (['-o', 'stray'], 'reject'),
                   (['-o', '-q', '-x'], 'reject'), (['-o', '-f', 'a', 'stray'], 'reject'), (['-o', '--nope=1'], 'reject'),
                   (['-o', '-v'], 'b0=1;b1=0;i0=0;s0=s-'), (['-o', '-q', '-n', '3'], 'b0=0;b1=1;i0=3;s0=s-'),
                   (['-v', '-o'], 'b0=1;b1=0;i0=0;s0=s-'), (['-o', '-f', 'a', '-v'], 'b0=1;b1=0;i0=0;s0=s61')):
        cases.append(sgb + A.argv_tok(w) + ' exp:%s mut:%s' % (exp, 'unknown-short' if exp == 'reject' else 'none'))
    # rules on the sub-group argument itself: mandatory, cardinality
    for rule, lines in (('man', ((['-v'], 'reject'), ([], 'reject'), (['-n', '3'], 'reject'),
                                 (['-o', '-f', 'x'], 'b0=0;b1=0;i0=0;s0=s78'), (['-v', '--output', '-n', '2'], 'b0=1;b1=0;i0=2;s0=s-'))),
                        ('card=range~2~3', ((['-o', '-f', 'x'], 'reject'), (['-o', '-v'], 'reject'),
                                            (['-o', '-f', 'x', '-o', '-v'], 'b0=1;b1=0;i0=0;s0=s78'),
                                            (['-o', '-o', '-o', '-o'], 'reject'), (['-v'], 'b0=1;b1=0;i0=0;s0=s-'))),
                        ('card=max~1', ((['-o', '-o'], 'reject'), (['-o', '-q', '--output'], 'reject'), (['-o', '-q'], 'b0=0;b1=1;i0=0;s0=s-'))),
                        ('man/card=exact~2', ((['-o'], 'reject'), (['-o', '-o', '-q'], 'b0=0;b1=1;i0=0;s0=s-'), (['-v'], 'reject'))),
                        ('card=exact~1', ((['-o', '-o'], 'reject'), (['-o', '-n', '5'], 'b0=0;b1=0;i0=5;s0=s-'),
                                          (['-v'], 'b0=1;b1=0;i0=0;s0=s-')))):
        for w, exp in lines:
            cases.append('H:f=0 arg:v:b0:init=0 arg:n:i0: S:o,output:f=0:%s arg:f,file:s0: arg:q:b1:init=0 %s exp:%s mut:%s'
                         % (rule, A.argv_tok(w), exp, 'drop-mandatory' if exp == 'reject' else 'none'))
    # the key of a sub-group argument is taken by a plain argument of the same handler: the definition is refused
    for plain, sub in (('o,output', 'o'), ('output', 'output'), ('o', 'o,output'), ('o,output', 'x,output')):
        cases.append('H:f=0 arg:%s:b0:init=0 S:%s:f=0 arg:q:b1:init=0 %s exp:reject mut:duplicate' % (plain, sub, A.argv_tok(['-o'])))
    # the inversion character in front of an argument that does not allow inversion (none of these does): refused;
    # in front of nothing: no effect.  "(" and ")" without bracket handlers are unknown arguments
    for w, exp in ((['!', '-f'], 'reject'), (['-n', '3', '!', '-f'], 'reject'), (['!', '-n', '3'], 'reject'), (['!', '--number=3'], 'reject'),
                   (['-f', '!'], 'b0=1;i0=0;vi0=[]'), (['!'], 'b0=0;i0=0;vi0=[]'), (['-l', '1', '!', '2'], 'reject'), (['!', '!', '-f'], 'reject'),
                   (['(', '-f', ')'], 'reject'), (['-f', ')'], 'reject'), (['-l', '1', '(', '2'], 'reject'), (['-fn', '3', '!'], 'b0=1;i0=3;vi0=[]')):
        # (the lines without an inverted argument carry no expectation: model and implementation have to agree)
        cases.append('H:f=0 arg:f:b0:init=0 arg:n,number:i0: arg:l:vi0:multi %s%s'
                     % (A.argv_tok(w), ' exp:reject mut:inversion' if exp == 'reject' else ''))
    # pattern checks (outside the model; ECMAScript regular expressions that mean the same in every dialect): the
    # WHOLE value has to match
    for slot, pat, good, bad in (('s0', '[A-Z][a-z]+', ['Peter', 'Ab'], ['Peter2', 'xPeter', 'Peter,Paul', 'peter', 'P', '']),
                                 ('i0', '[0-9]{2}', ['12', '99'], ['123', '4711', '1', '-12']),
                                 ('vs0', '[a-z]{3}', ['abc', 'abc,def'], ['abc,defg', 'abcd', 'ab', 'abc,de', 'xabc'])):
        for v in good + bad:
            if v == '':
                continue
            ok = v in good
            if slot == 's0':
                exp = 's0=s' + A.hx(v)
            elif slot == 'i0':
                exp = 'i0=' + v
            else:
                exp = 'vs0=[' + ','.join('s' + A.hx(x) for x in v.split(',')) + ']'
            for w in (['-p', v], ['--pat=' + v]):
                cases.append('H:f=0 arg:p,pat:%s:chk=pattern~%s %s exp:%s mut:%s'
                             % (slot, A.hx(pat), A.argv_tok(w), exp if ok else 'reject', 'none' if ok else 'bad-value'))
    # the end-of-line cardinality check looks at the number of values given, whether or not the destination counts
    # as "has a value" afterwards: a tuple given too few values, a vector cleared by a use without value
    for w, exp in ((['-t', '1,x,3'], 'b0=0;ti0=(1,s78,3)'), (['-t', '1,x'], 'reject'), (['-t', '7'], 'reject'), (['-t', '1', '-t', 'x'], 'reject'),
                   (['-t', '1', '-t', 'x', '-t', '3'], 'b0=0;ti0=(1,s78,3)'), (['-f'], 'b0=1;ti0=(0,s-,0)'), (['-t', '1,x,3,4'], 'reject')):
        cases.append('H:f=0 arg:t:ti0: arg:f:b0:init=0 %s exp:%s mut:%s' % (A.argv_tok(w), exp, 'cardinality' if exp == 'reject' else 'none'))
    for w, exp in ((['-v'], 'reject'), (['-v', '-v'], 'vi0=[]'), (['-v', '5'], 'reject'), (['-v', '5', '-v', '6'], 'vi0=[5,6]'), (['-v', '5,6'], 'vi0=[5,6]'),
                   (['-v', '5,6,7'], 'reject')):
        cases.append('H:f=0 arg:v:vi0:clear/vm=opt/card=exact~2/init=1~2 %s exp:%s mut:%s'
                     % (A.argv_tok(w), exp, 'cardinality' if exp == 'reject' else 'none'))
    # a cardinality range without an upper limit (maximum -1): the minimum still holds (the pinned tree did not count
    # the values then: found on the unchanged tree, repaired)
    for w, exp in ((['-v', '1'], 'reject'), (['-v', '1', '-v', '2'], 'i0=0;vi0=[1,2]'), (['-v', '1,2'], 'i0=0;vi0=[1,2]'), (['-v', '1,2,3,4,5,6'], 'i0=0;vi0=[1,2,3,4,5,6]'),
                   (['-n', '4'], 'i0=4;vi0=[]'), (['-v', '1', '-n', '4'], 'reject'), (['-n', '4', '-v', '1', '-v', '2', '-v', '3'], 'i0=4;vi0=[1,2,3]')):
        cases.append('H:f=0 arg:v:vi0:card=range~2~-1 arg:n:i0: %s exp:%s mut:%s' % (A.argv_tok(w), exp, 'cardinality' if exp == 'reject' else 'none'))
    for w, exp in ((['-n', '1'], 'reject'), (['-n', '1', '-n', '2'], 'reject'), (['-n', '1', '-n', '2', '-n', '3'], 'i0=3'), (['-n', '1', '-n', '2', '-n', '3', '-n', '4'], 'i0=4')):
        cases.append('H:f=0 arg:n:i0:card=range~3~-1 %s exp:%s mut:%s' % (A.argv_tok(w), exp, 'cardinality' if exp == 'reject' else 'none'))
    cases.append('H:f=0 arg:n:i0:card=max~-1 %s exp:i0=3 mut:none' % A.argv_tok(['-n', '1', '-n', '2', '-n', '3']))
    # nothing on the command line: the end-of-line checks still run
    cases.append('H:f=0 arg:m:i0:man arg:x:b0:init=0 argv:- exp:reject mut:drop-mandatory')
    cases.append('H:f=0 arg:l:b0:init=0 arg:m:b1:init=0 con:one_of:l;m argv:- exp:reject mut:break-handler-constraint')
    cases.append('H:f=0 arg:l:b0:init=0 arg:m:b1:init=0 con:all_of:l;m argv:- exp:reject mut:break-handler-constraint')
    cases.append('H:f=0 arg:l:b0:init=0 arg:m:b1:init=0 con:any_of:l;m argv:- exp:b0=0;b1=0 mut:none')
    n += len(cases)
    guard = 0
    while len(cases) < n and guard < n * 30:
        guard += 1
        args, cons = G.gen_config(rng, rng.range(2, 6))
        uses = G.gen_line(rng, args, cons)
        if uses is None:
            continue
        kind = G.MUTATIONS[rng.below(len(G.MUTATIONS))]
        w = G.mutate(rng, kind, args, cons, uses)
        if w is None:
            continue
        stats[kind] = stats.get(kind, 0) + 1
        cases.append(G.case_line(args, cons, w, extra=('exp:reject', 'mut:' + kind)))
        if rng.chance(1, 4):
            w2 = G.spell(rng, uses, args, True)
            exp = G.expected_store(args, uses)
            cases.append(G.case_line(args, cons, w2, extra=('exp:' + ';'.join('%s=%s' % kv for kv in sorted(exp.items())),)))
    return {'cases': cases, 'exhaustive': False,
            'scopes': ['%d random configurations x one mutation each; mutation counts %s' % (n, stats)]}


def _exp(case):
    for t in case.split(' '):
        if t.startswith('exp:'):
            return t[4:]
    return None


def spec_check(case, ir, mr):
    if ir is None:
        return 'no result from the implementation'
    if 'CRASH' in ir:
        return 'memory error / abort: ' + ir
    exp = _exp(case)
    out = ir.split(' ')[0]
    if exp == 'reject':
        if out == 'ok':
            return 'a command line that breaks a declared rule was accepted'
        return None
    if exp:
        if out != 'ok':
            return 'a valid command line was rejected'
        vals = dict(x.split('=', 1) for x in ir.split(' ## ')[0].split(' ')[1:] if '=' in x)
        want = dict(x.split('=', 1) for x in exp.split(';'))
        if vals != want:
            return 'destination values differ from the intended ones'
    return None


def classify(case, ir, mr):
    for t in case.split(' '):
        if t.startswith('mut:'):
            return t[4:]
    return 'valid-line'


def nontrivial(case, mr):
    return mr is not None and not mr.startswith('setup') and not mr.startswith('unsupported')


def histogram_keys(case, mr):
    return [classify(case, None, None) + ':' + (mr.split(' ')[0] if mr else '?')]

CLAIM = {
    'text': 'Coq theorems (Properties_C02.v) over the model of Handler::evalArguments. Grammar form '
            '(C02_accepted_obeys_rules): for every configuration, every list of uses and every legal spelling of it, '
            'a normal return implies the declarative rules on the abstract line - every key designates a defined '
            'argument, every mandatory argument is used, every value passes its checks and converts, no argument is '
            'used more often than its cardinality allows, no argument is used after one that excludes it, every '
            'argument required by a used argument is used after it, all_of / any_of / one_of are met, differ / '
            'disjoint hold on the final values (invariants over the run). Rule form: step lemmas for unknown keys, '
            'missing values, checks (inclusive lower / exclusive upper), cardinality, exclusion in every spelling, '
            'and the end-of-line checks for ANY argv. The pinned notification by spelling is proved wrong '
            '(C02_pinned_notify_refuted) and was repaired. Model tied to the code by correspondence on rule-breaking '
            'mutations of valid lines and exhaustive small scopes for differ / disjoint and for requires / excludes lists '
            'that share entries. Sub-group arguments (ArgH/SubGroup.v): what the sub-group handler does not know is handed back to the main handler (C02_subgroup_leaves_the_unknown_element); the pinned code skipped it (C02_pinned_subgroup_refuted; found by the tie, repaired).',
    'note': 'the grammar form assumes that requires/excludes lists name each argument in one way '
            '(specs_canonical; the other case is covered by the tie) and speaks about the spellings of ArgH/Spell.v; '
            'destination kinds and features outside the model are listed in the evidence assumptions. trusted: Coq '
            'kernel, extraction, hand-written model (validated by correspondence), configuration translation in the '
            'OCaml driver',
    'technique': 'Coq proof (soundness by run invariants over the handler model, composed with the C01 simulation '
                 'theorem) + model/implementation correspondence on generated rule-breaking command lines',
    'design_ref': 'DESIGN.md section 5 (C01-C03) and 12.2',
}
