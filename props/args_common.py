"""shared by the argument-handler properties (C01-C08, C18): harness description, case building"""
import glob
import os

REPO = os.environ.get('VERIF_REPO', '/repo')


def repo_sources():
    src = REPO + '/src/'
    files = sorted(glob.glob(src + 'library/prog_args/*.cpp') + glob.glob(src + 'library/prog_args/detail/*.cpp'))
    files += [src + f for f in ('library/appl/arg_string_2_array.cpp', 'library/format/text_block.cpp',
                                'library/common/exception_base.cpp', 'library/common/extract_funcname.cpp',
                                'library/container/dynamic_bitset.cpp', 'library/common/detail/range_expression.cpp',
                                'library/common/detail/range_generator.cpp')]
    return [f[len(src):] for f in files if os.path.exists(f)]


HARNESS = {'name': 'args', 'sources': ['harness/args_harness.cpp'], 'repo_sources': repo_sources(),
           'sanitize': True, 'env': {'VERIF_WORK': '/verif/.work/args_home'}}


def hx(s):
    if isinstance(s, str):
        s = s.encode('latin-1')
    return s.hex() if s else '-'


def argv_tok(words):
    return 'argv:' + (','.join(hx(w) for w in words) if words else '-')
