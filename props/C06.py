"""C06  Multi-value destinations end up as the fold of all values given."""
import itertools
import os
import re
import sys
sys.path.insert(0, os.path.dirname(__file__))
import args_common as A

ID = 'C06'
HARNESS = A.HARNESS

RULE = ('a case = one container argument "-l/--list" bound to a destination of one of 21 kinds (vector deque list '
        'queue forward_list stack set multiset unordered_set unordered_multiset priority_queue T[4] std::array<T,4> '
        'vector<string> tuple<int,string,int> bitset<16> vector<bool> map<string,int> multimap<string,int> '
        'unordered_map<string,int> unordered_multimap<string,int>) x a subset of the options '
        '{separator, clear, sort, unique / unique-or-refuse, multi-value} (+ check / general format / position formats '
        '"fmtpos=<idx>~<upper|lower>" = addFormatPos / initial content) x a flat '
        'token sequence with duplicates x a cut of that sequence into 1..3 uses (optionally with empty uses and empty '
        'elements ",,"), later uses spelled as "-l v", "--list v" or as free values; optionally a second argument, the '
        'boolean flag "-f/--flag", used at any position between the uses. Non-trivial: the configuration is '
        'accepted and at least one token reaches the destination.')
TRUSTED_BASE = [
    'model ArgH/Cont.v written by hand from typed_arg.hpp / container_adapter.hpp / key_value_container_adapter.hpp / '
    'typed_arg_base.cpp (assignValue); tied by the correspondence check through the real Handler (addArgument, the '
    'option setters, evalArguments) on the final content of the destination and on accept / refuse',
    'Handler.v pieces reused: tokens (boost char_separator), run_checks, apply_fmts, lex_int, card_got/card_end, sort_by',
    'extraction: ExtrOcamlBasic only; ocaml/c06_driver.ml translates the configuration tokens and prints results',
    'C++ harness harness/args_harness.cpp (g++ 12 -O1, ASan+UBSan), prog_args library sources compiled from the tree',
]
ASSUMPTIONS = [
    'the command line of a case consists of uses of the one container argument: "-l v" / "--list v" and free words, '
    'and uses of the optional flag argument "-f" / "--flag"; '
    'value words do not start with a dash and are not one of the control characters ( ) ! (lexing is C01)',
    'theorems: fold / cut independence / clear once / sorted / checks on every element for all 21 kinds and every '
    'accepted option combination; content (placement), unique-drop and unique-refuse for the 11 ContainerAdapter kinds '
    'over int and for vector<string> (formats before the unique test); unique-drop for T[N]/std::array; positions for '
    'vector<bool>; map<string,int> and unordered_map<string,int>: pair format, first value for a key wins / existing '
    'keys keep their value, refusal of duplicate keys; all four key-value destinations (map, multimap, unordered_map, '
    'unordered_multimap): with unique data a key of the earlier content keeps exactly its entries, every other key '
    'given holds exactly its first pair, "duplicates are errors" accepts only new, pairwise different keys; multimap / '
    'unordered_multimap without unique data hold every pair given (multimap: behind the earlier entries of the key, in '
    'the order given); overflow refusal for arrays, tuple, bitset; position formats: tuple element k = k-th value '
    'given with the formats of position k, vector<string> element i at position |earlier content| + i, array slots, '
    'the format table of internAddFormat and its range rule, who accepts addFormat / addFormatPos; unique-drop on '
    'vector<string> with position formats only as NoDup + fold (a dropped duplicate shifts the positions); '
    'free values: multi-value routing, a flag ends the '
    'value list. The setters\' accept/refuse table is a theorem about the model (setup_ok) and tied to the code by '
    'one case per refused option subset',
    'a use without elements (empty word, separators only) still counts for a cardinality: the fold theorems assume no '
    'cardinality (the default of containers) or no such use; the oracle does not judge tuple cases with such uses',
    'not in the slot pool of the harness, hence not covered: DynamicBitset destinations, key-value destinations with '
    'other key / value types than <string,int>, pair formats other than "k,v", addFormatKey / addFormatValue of key-value destinations, unsetFlag on bit sets',
    'position formats: addFormatPos( idx) with idx >= -1 (idx < -1 indexes mFormats in front of its start: model '
    'Fault, never generated); formatters are uppercase / lowercase, which are invisible on the int destinations '
    '(theorem C06_formats_invisible_on_int), so their placement is observable on vector<string> and the string '
    'element of the tuple only',
    'vector<bool>: positions below 2^40 (pos * 1.5 is computed in double)',
    'unordered_map / unordered_multimap have no order of their own: harness and model print them ascending by (key, '
    'value); multimap: iteration order (equal keys in insertion order, guaranteed since C++11)',
]

KINDS = ['vi', 'di', 'li', 'qi', 'fi', 'ki', 'si', 'mi', 'usi', 'umi', 'pi', 'ai', 'ri', 'vs', 'ti', 'bs', 'vb', 'ms',
         'mms', 'ums', 'umms']
KV = ['ms', 'mms', 'ums', 'umms']          # map, multimap, unordered_map, unordered_multimap <string,int>
KV_MULTI = ['mms', 'umms']                 # insert() adds a pair whose key is stored already
INT_LIST = ['vi', 'di', 'li', 'qi', 'fi', 'ki', 'si', 'mi', 'usi', 'umi', 'pi']
SORTABLE = ['vi', 'di', 'li', 'fi', 'ai', 'ri', 'vs']
HAS_ITER = ['vi', 'di', 'li', 'fi', 'si', 'mi', 'usi', 'umi', 'ai', 'ri', 'vs'] + KV
CLEARABLE = [k for k in KINDS if k not in ('ai', 'ri', 'ti')]


def kind_of(slot):
    return re.match(r'[a-z]+', slot).group(0)


# --------------------------------------------------------------------------
# case construction

def render_use(toks, sep, deco):
    """one value string from a token list; deco: 0 plain, 1 leading separator, 2 doubled separators, 3 trailing"""
    if deco == 2:
        s = (sep + sep).join(toks)
    else:
        s = sep.join(toks)
    if deco == 1:
        s = sep + s
    if deco == 3:
        s = s + sep
    if s.startswith('-'):
        s = sep + s           # a value word may not start with a dash
    return s


FLAG_TOK = 'arg:f,flag:b3:init=0'


def make_case(slot, opts, uses, spell, extra='', flag=None):
    """uses: list of value strings (None for a use of the flag); spell: per use 's' (-l v), 'l' (--list v),
    'f' (free word), 'F' (-f), 'G' (--flag); flag: True = define the flag argument even if it is not used"""
    words = []
    for u, sp in zip(uses, spell):
        if sp == 'f':
            words.append(u)
        elif sp == 'F':
            words.append('-f')
        elif sp == 'G':
            words.append('--flag')
        else:
            words += ['-l' if sp == 's' else '--list', u]
    if flag is None:
        flag = any(sp in 'FG' for sp in spell)
    return 'H:f=0 arg:l,list:%s:%s %s%s' % (slot, '/'.join(opts), (FLAG_TOK + ' ') if flag else '', A.argv_tok(words)) + extra


def cuts(seq, maxparts=3):
    """every way of cutting seq into 1..maxparts contiguous non-empty parts"""
    n = len(seq)
    out = []
    if n == 0:
        return [[[]]]
    for parts in range(1, min(maxparts, n) + 1):
        for pos in itertools.combinations(range(1, n), parts - 1):
            b = (0,) + pos + (n,)
            out.append([seq[b[i]:b[i + 1]] for i in range(parts)])
    return out


def option_sets(kind):
    """all subsets of {clear, sort, uniq|uniq!, multi, sep}"""
    out = []
    for clear in (0, 1):
        for sort in (0, 1):
            for uq in ('', 'uniq', 'uniq!'):
                for multi in (0, 1):
                    for sep in (0, 1):
                        o = []
                        if sep:
                            o.append('sep=3a')
                        if clear:
                            o.append('clear')
                        if sort:
                            o.append('sort')
                        if uq:
                            o.append(uq)
                        if multi:
                            o.append('multi')
                        out.append(o)
    return out


def opts_valid(kind, opts):
    if 'sort' in opts and kind not in SORTABLE:
        return False
    if ('uniq' in opts or 'uniq!' in opts) and kind not in HAS_ITER:
        return False
    if 'clear' in opts and kind not in CLEARABLE:
        return False
    if any(o.startswith('fmt=') for o in opts) and kind == 'ti':
        return False
    for o in opts:
        if o.startswith('fmtpos='):
            idx = int(o[7:].split('~')[0])
            if idx < -1:
                return False
            if kind in ('vi', 'vs'):
                continue
            if kind in ('ai', 'ri'):
                if idx >= 4:
                    return False
            elif kind == 'ti':
                if idx == -1 or idx >= 3:
                    return False
            else:
                return False
    if kind in KV and 'sep=2c' in opts:
        return False
    return True


def sep_of(kind, opts):
    for o in opts:
        if o.startswith('sep='):
            return chr(int(o[4:], 16))
    return ';' if kind in KV else ','


SEQS = {
    'int': [['3', '1', '2'], ['1', '1'], ['2', '1', '2', '3'], ['0', '5', '0'], ['-4', '3', '-4', '+1'], ['7'], [],
            ['5', '0', '5', '0', '1'],
            # more distinct values than a fixed-size destination (4 elements) can hold, with and without duplicates
            ['1', '2', '3', '4', '5'], ['6', '5', '5', '4', '3', '2', '1']],
    'vs': [['b', 'a', 'B'], ['ab', 'ab'], ['c', 'a', 'c', 'b'], ['x'], []],
    'ti': [['7', 'x', '9'], ['7', 'x'], ['7', 'x', '9', '4'], ['x', '7', '9'], []],
    'bs': [['3', '1', '3'], ['0', '15'], ['2', '16'], ['4', '1', '9', '1'], []],
    'vb': [['3', '1', '3'], ['0', '9', '10'], ['1'], ['14', '2', '15', '22'], ['11', '1'], []],
    'ms': [['b,2', 'a,1'], ['a,1', 'a,2'], ['c,3', 'a,1', 'c,4', 'b,2'], ['a'], ['a,'], [',1'], ['a,x'], [],
           # a key twice with descending values, a duplicate whose value does not convert (dropped before the
           # conversion when unique data is set), the key of the initial content
           ['a,9', 'b,2', 'a,3', 'b,1'], ['b,1', 'b,x'], ['d,4', 'a,0', 'd,4']],
}
INITS = {
    'int': [None, '7~3', '2~2~9'],
    'ai': [None, '0~0~9~9', '5~6~5~6'], 'ri': [None, '0~0~9~9', '5~6~5~6'],
    'vs': [None, '61~62'],
    'ti': [None],
    # key-value: <key hex>.<int>; a key twice (the maps keep the first entry, the multi-maps both)
    'ms': [None, '61.7', '61.8~62.5~61.6'],
    'bs': [None, '1~5'],
    'vb': [None, '1', '2~0', '12~11', '2'],
}


def seq_class(kind):
    if kind in KV:
        return 'ms'
    return 'int' if kind in INT_LIST or kind in ('ai', 'ri') else kind


def init_class(kind):
    if kind in KV:
        return 'ms'
    return 'int' if kind in INT_LIST else kind


def gen_cases(tier, rng):
    cases = []
    quick = tier == 'quick'
    # corpus: the witnesses of the two defects of the pinned tree, and the seeded-mutation witnesses of DESIGN.md 10
    cases.append(make_case('ai0', ['uniq'], ['0,5'], 's'))
    cases.append(make_case('ri0', ['uniq'], ['0,5'], 's'))
    cases.append(make_case('ai0', ['uniq!'], ['0'], 's'))
    cases.append(make_case('vb0', ['init=1'], ['1'], 's'))
    cases.append(make_case('vb0', ['init=1', 'multi'], ['0', '1'], 'sf'))
    cases.append(make_case('vi0', ['clear', 'init=7~3'], ['1', '2'], 'ss'))
    cases.append(make_case('vi0', ['clear', 'init=7~3', 'multi'], ['1', '2'], 'sf'))
    cases.append(make_case('fi0', [], ['1,2', '3'], 'ss'))
    cases.append(make_case('vi0', ['sort', 'uniq', 'init=7~3'], ['3,9', '7,1'], 'ss'))
    n = 0
    for kind in KINDS:
        sc = seq_class(kind)
        for opts in option_sets(kind):
            valid = opts_valid(kind, opts)
            sep = sep_of(kind, opts)
            if kind in KV and 'sep=3a' not in opts:
                sep = ';'
            multi = 'multi' in opts
            if not valid:
                # refused at definition time: one case is enough
                cases.append(make_case(kind + '0', opts, ['1'], 's'))
                continue
            for init in INITS[init_class(kind)]:
                o = opts + (['init=' + init] if init else [])
                for seq in SEQS[sc]:
                    for cut in cuts(seq):
                        n += 1
                        # quick tier: a seeded sample of the product; every (kind, option set) keeps its one-use
                        # case and a share of the multi-use cuts
                        if quick and len(cut) > 1 and rng.below(4) != 0:
                            continue
                        if quick and len(cut) == 1 and init and rng.below(2) != 0:
                            continue
                        deco = rng.below(4) if len(seq) else 0
                        uses = [render_use(p, sep, deco if i == (n % len(cut)) else 0) for i, p in enumerate(cut)]
                        spells = ['s' if rng.below(2) else 'l']
                        for u in uses[1:]:
                            if multi and rng.below(3) != 0:
                                spells.append('f')
                            else:
                                spells.append('s' if rng.below(2) else 'l')
                        cases.append(make_case(kind + str(n % 4), o, uses, spells))
                        # an empty use (empty word or separators only) at a seeded position
                        if len(seq) and rng.below(6 if quick else 3) == 0:
                            k = rng.below(len(uses) + 1)
                            e = rng.choice(['', sep, sep + sep])
                            u2 = uses[:k] + [e] + uses[k:]
                            s2 = spells[:k] + [('s' if k == 0 or not multi or rng.below(2) else 'f')] + spells[k:]
                            if k == 0 and len(s2) > 1 and s2[1] == 'f' and not multi:
                                s2[1] = 's'
                            cases.append(make_case(kind + str(n % 4), o, u2, s2))
                        # a free value although the argument does not take multiple values
                        if not multi and len(uses) > 1 and rng.below(8) == 0:
                            cases.append(make_case(kind + str(n % 4), o, uses, [spells[0]] + ['f'] * (len(uses) - 1)))
    # another argument (a boolean flag) between the uses: it ends the value list, a following free value does not
    # reach the container (no positional argument: refused); keyed uses after the flag continue the fold
    cases.append(make_case('vi0', ['multi'], ['1', '2', None, '9'], 'sfFf'))
    cases.append(make_case('vi0', ['multi'], ['1', '2', None], 'sfF'))
    cases.append(make_case('vi0', ['multi'], ['1', None, '2', '3'], 'sFsf'))
    cases.append(make_case('vi0', ['multi'], [None, '1', '2'], 'Fsf'))
    cases.append(make_case('vi0', ['multi'], [None, '1'], 'Ff'))
    cases.append(make_case('vi0', ['multi'], ['1', None, None], 'sFG'))
    cases.append(make_case('vi0', ['multi'], ['1', '2'], 'sf', flag=True))
    for kind in KINDS:
        sc = seq_class(kind)
        for base in ([], ['sort'], ['uniq'], ['clear']):
            if not opts_valid(kind, base):
                continue
            for multi in (0, 1):
                o = base + (['multi'] if multi else [])
                sep = sep_of(kind, o)
                for seq in (SEQS[sc][0], SEQS[sc][2]):
                    for cut in cuts(seq):
                        uses = [render_use(p_, sep, 0) for p_ in cut]
                        for pos in range(len(uses) + 1):
                            for style in ('key', 'free', 'mixed'):
                                if style != 'key' and len(uses) == 1 and pos == 0:
                                    continue
                                sp = ['s' if rng.below(2) else 'l']
                                for j in range(1, len(uses)):
                                    if style == 'key':
                                        sp.append('s' if rng.below(2) else 'l')
                                    elif style == 'free':
                                        sp.append('f')
                                    else:
                                        sp.append('f' if rng.below(2) else 's')
                                u2 = uses[:pos] + [None] + uses[pos:]
                                s2 = sp[:pos] + ['F' if rng.below(2) else 'G'] + sp[pos:]
                                if pos == 0 and style != 'key':
                                    # the first container use must be keyed in any case
                                    s2[1] = 's'
                                cases.append(make_case(kind + str((n + pos) % 4), o, u2, s2))
                                if rng.below(10) == 0:
                                    k2 = rng.below(len(u2) + 1)
                                    cases.append(make_case(kind + str((n + pos) % 4), o, u2[:k2] + [None] + u2[k2:],
                                                           s2[:k2] + ['F'] + s2[k2:]))
                        n += 1
    # position formats (addFormatPos): the format follows the element that is filled, not the place of the value in
    # its value string.  Deterministic blocks, both tiers.
    def spellings(nuses, multi):
        out = [['s'] * nuses, ['s'] + ['l'] * (nuses - 1)]
        if multi and nuses > 1:
            out.append(['s'] + ['f'] * (nuses - 1))
            if nuses > 2:
                out.append(['s', 'f', 'l'])
                out.append(['l', 's', 'f'])
        return out
    TUP_FMTS = [['fmtpos=1~upper'], ['fmtpos=1~lower'], ['fmtpos=0~upper', 'fmtpos=2~lower'],
                ['fmtpos=0~lower', 'fmtpos=1~upper', 'fmtpos=2~upper'], ['fmtpos=1~upper', 'fmtpos=1~lower'],
                ['fmtpos=2~upper'], ['fmtpos=0~upper'],
                ['fmtpos=3~upper'], ['fmtpos=-1~upper'], ['fmt=upper'], ['fmtpos=1~upper', 'fmtpos=3~lower']]
    for fm in TUP_FMTS:
        for seq in (['7', 'aBc', '9'], ['7', 'aBc'], ['7', 'aBc', '9', 'dEf'], ['xY', 'aBc', '9']):
            for cut in cuts(seq):
                for multi in (0, 1):
                    o = fm + (['multi'] if multi else [])
                    uses = [render_use(p_, ',', 0) for p_ in cut]
                    for sp in spellings(len(uses), multi):
                        cases.append(make_case('ti%d' % (len(cases) % 4), o, uses, sp))
                    if multi and len(uses) == 3:
                        cases.append(make_case('ti0', o, uses[:2] + [None] + uses[2:], 'sfFl'))
    VS_FMTS = [['fmtpos=0~upper'], ['fmtpos=1~lower'], ['fmtpos=2~upper'],
               ['fmtpos=0~upper', 'fmtpos=1~lower', 'fmtpos=2~upper'], ['fmt=lower', 'fmtpos=1~upper'],
               ['fmtpos=1~upper', 'fmt=lower'], ['fmtpos=-1~upper'], ['fmtpos=3~lower', 'fmtpos=4~upper'],
               ['fmtpos=1~upper', 'fmtpos=1~lower']]
    for fm in VS_FMTS:
        for init in (None, '6b~64', '4b'):
            for base in ([], ['sort'], ['uniq'], ['uniq!'], ['sort', 'uniq'], ['clear']):
                for seq in (['aB', 'Cd', 'eF'], ['aB', 'Ab', 'aB'], ['Zz', 'aB', 'zz', 'Ab']):
                    for cut in cuts(seq):
                        for multi in (0, 1):
                            o = fm + base + (['multi'] if multi else []) + (['init=' + init] if init else [])
                            uses = [render_use(p_, ',', 0) for p_ in cut]
                            sps = spellings(len(uses), multi)
                            sp = sps[(len(cases) + len(cut)) % len(sps)]
                            cases.append(make_case('vs%d' % (len(cases) % 4), o, uses, sp))
    for kind in ('vi', 'ai', 'ri'):
        for fm in (['fmtpos=0~upper'], ['fmtpos=3~lower'], ['fmtpos=1~upper', 'fmtpos=2~lower'], ['fmtpos=-1~upper'],
                   ['fmtpos=4~upper'], ['fmtpos=7~lower']):
            for base in ([], ['sort'], ['uniq']):
                for seq in (['3', '1', '2'], ['5', '0', '5', '0']):
                    for cut in cuts(seq):
                        uses = [render_use(p_, ',', 0) for p_ in cut]
                        cases.append(make_case(kind + '2', fm + base + ['multi'], uses,
                                               ['s'] + ['f' if j % 2 else 'l' for j in range(1, len(uses))]))
    for kind in KINDS:
        if kind not in ('vi', 'vs', 'ai', 'ri', 'ti'):
            sep = ';' if kind in KV else ','
            for fm in (['fmtpos=0~upper'], ['fmtpos=-1~lower']):
                cases.append(make_case(kind + '0', fm, [render_use(SEQS[seq_class(kind)][0], sep, 0)], 's'))
    # checks and formats reach every single element: a violating element at every position
    for kind in INT_LIST + ['ai', 'ri', 'bs', 'vb']:
        for extra in ([], ['multi'], ['uniq'] if kind in HAS_ITER else ['multi']):
            base = ['3', '4', '5', '6'] if kind != 'vb' else ['3', '4', '5', '6']
            for pos in range(len(base)):
                for bad in ('2', 'x', ''):
                    seq = list(base)
                    seq[pos] = bad
                    if bad == '':
                        seq = base[:pos] + base[pos + 1:]
                    for cut in cuts(seq):
                        if quick and rng.below(3) != 0:
                            continue
                        uses = [render_use(p, ',', 0) for p in cut]
                        sp = ['s'] + [('f' if 'multi' in extra and rng.below(2) else 'l') for _ in uses[1:]]
                        cases.append(make_case(kind + '1', ['chk=lower~3'] + extra, uses, sp))
    for fmt in ('upper', 'lower'):
        for extra in ([], ['uniq'], ['uniq!'], ['sort'], ['sort', 'uniq']):
            for seq in (['ab', 'AB', 'c'], ['B', 'a', 'b'], ['a', 'A']):
                for cut in cuts(seq):
                    uses = [render_use(p, ',', 0) for p in cut]
                    cases.append(make_case('vs2', ['fmt=' + fmt] + extra, uses, ['s'] * len(uses)))
    for chk in ('minlen~2', 'maxlen~1', 'values~ab~c'):
        for seq in (['ab', 'c'], ['c', 'ab', 'abc'], ['ab', 'ab']):
            for cut in cuts(seq):
                uses = [render_use(p, ',', 0) for p in cut]
                cases.append(make_case('vs3', ['chk=' + chk], uses, ['s'] * len(uses)))
    # format on other kinds (accepted, no effect on digits; refused for tuples), checks on tuple and map elements
    for kind in ('vi', 'si', 'ai', 'bs', 'vb', 'ms', 'mms', 'ums', 'umms', 'ti'):
        seq = SEQS[seq_class(kind)][0]
        sep = ';' if kind in KV else ','
        cases.append(make_case(kind + '0', ['fmt=upper'], [render_use(seq, sep, 0)], 's'))
    cases.append(make_case('ti0', ['chk=minlen~1'], ['7,x,9'], 's'))
    cases.append(make_case('ti0', ['chk=maxlen~1'], ['7,x', '19'], 'ss'))
    cases.append(make_case('ti0', ['multi'], ['7', 'x', '9'], 'sff'))
    cases.append(make_case('ti0', ['multi'], ['7', 'x', '9', '1'], 'sfff'))
    cases.append(make_case('ms0', ['chk=minlen~3'], ['ab,1;c,2'], 's'))
    # fixed-size, tuple and bit-set destinations whose cardinality was removed or raised: the destination itself
    # refuses more elements than it holds - exactly one too many, two too many, in one list and over several uses
    for kind, full in (('ti', ['7', 'x', '9']), ('ai', ['1', '2', '3', '4']), ('ri', ['1', '2', '3', '4'])):
        for card in ('card=none', 'card=max~9', 'card=range~1~9'):
            for extra in (['5'], ['5', '6'], []):
                seq = full + extra
                cases.append(make_case(kind + '0', [card], [','.join(seq)], 's'))
                cases.append(make_case(kind + '0', [card], seq, 's' * len(seq)))
                cases.append(make_case(kind + '0', [card, 'multi'], seq, 's' + 'f' * (len(seq) - 1)))
                if len(seq) > 2:
                    cases.append(make_case(kind + '0', [card], [','.join(seq[:2]), ','.join(seq[2:])], 'ss'))
    # key-value destinations: a key that is stored already - by the initial content, by an earlier pair of the same
    # value list, by an earlier use of the argument, by the value before a free value - x unique data off / drop /
    # refuse x clear-before-assign off / on x initial content (none, one entry, a key twice).  Deterministic, both
    # tiers: insert() alone ignores such a pair on map / unordered_map and adds it on the two multi-maps.
    for kind in KV:
        for uq in ([], ['uniq'], ['uniq!']):
            for clear in ([], ['clear']):
                for init in (None, '61.7', '61.9~62.5~61.6', '63.1'):
                    base = uq + clear + (['init=' + init] if init else [])
                    j = len(cases)
                    for uses, sp, multi in (
                            (['a,1;b,2;a,3'], 's', 0),                 # earlier pair of the same list
                            (['a,5;b,2'], 'l', 0),                      # the initial content only
                            (['b,2;c,3'], 's', 0),                      # no duplicate among the pairs given
                            (['a,1;b,2', 'a,3;c,4'], 'ss', 0),          # earlier use
                            (['b,2', 'b,1', 'b,3'], 'sll', 0),          # three uses, one key, values out of order
                            (['a,1;b,2', 'a,3'], 'sf', 1),              # free value
                            (['c,2', 'a,4;c,1', 'c,0;a,2'], 'sff', 1),  # free values with lists
                            (['a,1;b,2', 'c,7', 'a,x'], 'sfl', 1),      # the duplicate does not convert
                            (['a,1;b,2', 'a,3'], 'sf', 0)):             # free value without multi-value: refused
                        cases.append(make_case(kind + str(j % 4), base + (['multi'] if multi else []), uses, sp))
    # random longer sequences on the int kinds
    nrand = 300 if quick else 6000
    for _ in range(nrand):
        kind = rng.choice(INT_LIST + ['ai', 'ri', 'vs', 'bs', 'vb'] + KV)
        opts = rng.choice([o for o in option_sets(kind) if opts_valid(kind, o)])
        sep = sep_of(kind, opts)
        ln = rng.range(0, 4 if kind in ('ai', 'ri') else 7)
        if kind == 'vs':
            pool = ['a', 'b', 'B', 'ab', 'c']
        elif kind == 'bs':
            pool = ['0', '1', '5', '15', '7', '16']
        elif kind == 'vb':
            pool = ['0', '1', '2', '9', '10', '11', '17', '30']
        elif kind in KV:
            pool = ['a,1', 'a,2', 'b,1', 'b,0', 'c,-3', 'a,1', 'ab,+4', 'b,7', 'c,x']
        else:
            pool = ['0', '1', '2', '3', '-1', '+2', '9', '10', '-10']
        seq = [rng.choice(pool) for _ in range(ln)]
        parts = []
        rest = list(seq)
        while rest:
            k = rng.range(1, len(rest))
            parts.append(rest[:k])
            rest = rest[k:]
        if not parts:
            parts = [[]]
        if rng.below(5) == 0:
            parts.insert(rng.below(len(parts) + 1), [])
        uses = [render_use(p, sep, rng.below(4)) for p in parts]
        sp = ['s' if rng.below(2) else 'l']
        for _u in uses[1:]:
            sp.append('f' if 'multi' in opts and rng.below(2) else ('s' if rng.below(2) else 'l'))
        o = list(opts)
        ic = init_class(kind)
        init = rng.choice(INITS[ic])
        if init:
            o.append('init=' + init)
        if kind not in ['vs'] + KV and rng.below(5) == 0:
            o.append('chk=' + rng.choice(['lower~0', 'upper~10', 'range~0~10']))
        cases.append(make_case(kind + str(rng.below(4)), o, uses, sp))
    return {'cases': cases, 'exhaustive': not quick,
            'scopes': ['21 destination kinds x all 48 subsets of {sep, clear, sort, uniq|uniq!, multi} (refused subsets: '
                       'one case) x initial contents x %d token sequences per kind x every cut into <= 3 uses%s; '
                       'spelling of later uses (-l / --list / free value), empty elements and empty uses seeded'
                       % (max(len(v) for v in SEQS.values()), ' (seeded 1/4 sample of the multi-use cuts)' if quick else ''),
                       'flag argument between the uses: 21 kinds x {plain, sort, uniq, clear} x multi on/off x 2 sequences x '
                       'every cut into <= 3 uses x every position of the flag x later uses keyed / free / mixed (+ the '
                       'flag twice, seeded)',
                       'position formats: tuple<int,string,int> x 11 format sets (positions 0..2, two on one position, the '
                       'refused ones: position 3, -1, addFormat) x 3 / 2 / 4 values x every cut x multi on/off x keyed / '
                       'free / mixed spellings; vector<string> x 9 format sets (positions 0..4, general + position, '
                       'addFormatPos(-1)) x initial content none / 1 / 2 elements x {plain, sort, uniq, uniq!, sort+uniq, '
                       'clear} x 3 sequences x every cut x multi on/off; vector<int> and the arrays x 6 sets (incl. the '
                       'refused positions >= N); one case per kind that refuses addFormatPos',
                       'violating element (check / conversion) at every position of a 4-element sequence x every cut',
                       'key-value destinations (map, multimap, unordered_map, unordered_multimap): a key that is stored '
                       'already (initial content / earlier pair of the list / earlier use / before a free value) x unique '
                       'data off, drop, refuse x clear on/off x 4 initial contents (one with a key twice) x 9 use patterns',
                       'random: %d longer sequences with random cuts' % nrand]}


# --------------------------------------------------------------------------
# the property restated on one case (spec oracle; search / triage only)

INT_RE = re.compile(r'^[+-]?\d+$')


def _to_int(t):
    if not INT_RE.match(t):
        return None
    v = int(t)
    return v if -2**31 <= v < 2**31 else None


def _to_size(t):
    if not INT_RE.match(t):
        return None
    v = int(t)
    if abs(v) >= 2**64:
        return None
    return v % 2**64


class Refuse(Exception):
    pass


def parse_case(case):
    """(slot, opts, words, flag) of the container argument; flag = None or (slot, [spellings], initial value)"""
    toks = case.split(' ')
    arg = [t for t in toks if t.startswith('arg:')]
    cont = [a for a in arg if kind_of(a.split(':', 3)[2]) != 'b']
    flg = [a for a in arg if kind_of(a.split(':', 3)[2]) == 'b']
    if len(cont) != 1 or len(flg) > 1:
        return None
    _, key, slot, optstr = cont[0].split(':', 3)
    opts = [o for o in optstr.split('/') if o]
    flag = None
    if flg:
        _, fkey, fslot, fopt = flg[0].split(':', 3)
        spell = [('-' + w) if len(w) == 1 else ('--' + w) for w in fkey.split(',')]
        init = int(fslot[1:]) >= 2
        for o in fopt.split('/'):
            if o.startswith('init='):
                init = o[5:] == '1'
        flag = (fslot, spell, init)
    av = [t for t in toks if t.startswith('argv:')][0][5:]
    words = [] if av == '-' else [bytes.fromhex(x).decode('latin-1') if x != '-' else '' for x in av.split(',')]
    return slot, opts, words, flag


def _check(chk, t, kind):
    """True when the element passes the check"""
    p = chk.split('~')
    if p[0] in ('lower', 'upper', 'range'):
        v = _to_int(t)
        if v is None:
            return False
        if p[0] == 'lower':
            return v >= int(p[1])
        if p[0] == 'upper':
            return v < int(p[1])
        return int(p[1]) <= v < int(p[2])
    if p[0] == 'minlen':
        return len(t) >= int(p[1])
    if p[0] == 'maxlen':
        return len(t) <= int(p[1])
    if p[0] == 'values':
        return t in p[1:]
    return True


def expected(slot, opts, words, flag=None):
    """('setup'|'err'|'ok', value) according to the property; value in the harness's canonical form, or a
    dict for vector<bool> (size is not determined by the property)"""
    kind = kind_of(slot)
    if not opts_valid(kind, opts):
        return 'setup', None
    sep = sep_of(kind, opts)
    multi = 'multi' in opts
    clear = 'clear' in opts
    sort = 'sort' in opts
    uniq = 'uniq' in opts or 'uniq!' in opts
    dup_err = 'uniq!' in opts
    checks = [o[4:] for o in opts if o.startswith('chk=')]
    # general formats (addFormat, addFormatPos(-1)) in definition order; position formats per position
    fmts = []
    posf = {}
    for o in opts:
        if o.startswith('fmt='):
            fmts.append(o[4:])
        elif o.startswith('fmtpos='):
            i_, f_ = o[7:].split('~')
            if int(i_) == -1:
                fmts.append(f_)
            else:
                posf.setdefault(int(i_), []).append(f_)

    def fmt_at(pos, t):
        for f in posf.get(pos, []):
            t = t.upper() if f == 'upper' else t.lower()
        return t
    init = None
    for o in opts:
        if o.startswith('init='):
            init = o[5:].split('~')
    # the uses: -l v / --list v / free words
    uses = []
    i = 0
    open_list = False          # the value list of the container is open: free words belong to it
    nflag = 0
    while i < len(words):
        w = words[i]
        if flag and w in flag[1]:
            nflag += 1         # another argument ends the value list
            open_list = False
            if nflag > 1:
                return 'err', None
            i += 1
        elif w.startswith('-'):
            if i + 1 >= len(words) or words[i + 1].startswith('-'):
                return 'err', None
            uses.append(words[i + 1])
            open_list = True
            i += 2
        else:
            if not multi or not open_list:
                return 'err', None
            uses.append(w)
            i += 1
    flat = [t for u in uses for t in u.split(sep) if t != '']
    used = len(uses) > 0

    def elem(t):
        for c in checks:
            if not _check(c, t, kind):
                raise Refuse('check')
        for f in fmts:
            t = t.upper() if f == 'upper' else t.lower()
        return t

    try:
        if kind in INT_LIST:
            before = [int(x) for x in init] if init else []
            # the content before, as the container holds it
            cur = _place_all(kind, [], before)
            if clear and used:
                cur = []
            for t in flat:
                v = _to_int(elem(t))
                if v is None:
                    raise Refuse('conversion')
                if uniq and v in cur:
                    if dup_err:
                        raise Refuse('duplicate')
                    continue
                cur = _place_all(kind, cur, [v])
            if sort and used:
                cur = sorted(cur)
            return 'ok', '[' + ','.join(map(str, cur)) + ']'
        if kind in ('ai', 'ri'):
            arr = [0, 0, 0, 0]
            if init:
                for j, x in enumerate(init[:4]):
                    arr[j] = int(x)
            idx = 0
            for t in flat:
                if idx == 4:
                    raise Refuse('overflow')
                v = _to_int(elem(t))
                if v is None:
                    raise Refuse('conversion')
                if uniq and v in arr[:idx]:
                    if dup_err:
                        raise Refuse('duplicate')
                    continue
                arr[idx] = v
                idx += 1
            if sort and used:
                arr[:idx] = sorted(arr[:idx])
            return 'ok', '[' + ','.join(map(str, arr)) + ']'
        if kind == 'vs':
            cur = [bytes.fromhex(x).decode('latin-1') for x in init] if init else []
            if clear and used:
                cur = []
            for t in flat:
                # the element lands at the current end of the vector: that position's format applies
                v = fmt_at(len(cur), elem(t))
                if uniq and v in cur:
                    if dup_err:
                        raise Refuse('duplicate')
                    continue
                cur.append(v)
            if sort and used:
                cur = sorted(cur, key=lambda s: s.encode('latin-1'))
            return 'ok', '[' + ','.join('s' + A.hx(x) for x in cur) + ']'
        if kind == 'ti':
            tup = [0, '', 0]
            n = 0
            if len(flat) <= 3 and any(not [t for t in u.split(sep) if t != ''] for u in uses):
                return None, None         # a use without elements still counts for the cardinality: not C06's matter
            for t in flat:
                if n >= 3:
                    raise Refuse('overflow')
                t = fmt_at(n, elem(t))       # element n of the tuple: the format of position n, no other
                if n == 1:
                    tup[1] = t
                else:
                    v = _to_int(t)
                    if v is None:
                        raise Refuse('conversion')
                    tup[n] = v
                n += 1
            if used and n != 3:
                raise Refuse('tuple incomplete')
            return 'ok', '(%d,s%s,%d)' % (tup[0], A.hx(tup[1]), tup[2])
        if kind in ('bs', 'vb'):
            bits = set()
            size = None
            if init:
                if kind == 'bs':
                    bits = {int(x) for x in init}
                else:
                    size = int(init[0])
                    bits = {int(x) for x in init[1:]}
            if clear and used:
                bits = set()
            for t in flat:
                p = _to_size(elem(t))
                if p is None:
                    raise Refuse('conversion')
                if kind == 'bs' and p >= 16:
                    raise Refuse('overflow')
                bits.add(p)
            if kind == 'bs':
                return 'ok', '[' + ','.join(map(str, sorted(bits))) + ']'
            return 'ok', {'bits': sorted(bits)}
        if kind in KV:
            adds = kind in KV_MULTI       # insert() of the multi-maps stores a pair whose key is there already
            cur = []                      # (key, value) in the order stored
            for x in (init or []):
                k, z = x.split('.')
                k = bytes.fromhex(k).decode('latin-1')
                if adds or all(k != e[0] for e in cur):
                    cur.append((k, int(z)))
            if clear and used:
                cur = []
            for t in flat:
                t = elem(t) if not fmts else _chk_only(checks, t, kind)
                if ',' not in t:
                    raise Refuse('pair format')
                k, v = t.split(',', 1)
                if k == '' or v == '':
                    raise Refuse('pair format')
                have = any(k == e[0] for e in cur)
                if uniq and have:
                    # unique data: a key that is stored is a duplicate, on every kind of map
                    if dup_err:
                        raise Refuse('duplicate')
                    continue
                z = _to_int(v)
                if z is None:
                    raise Refuse('conversion')
                if adds or not have:
                    cur.append((k, z))
            if kind == 'umms':
                cur = sorted(cur, key=lambda e: (e[0].encode('latin-1'), e[1]))
            else:
                cur = sorted(cur, key=lambda e: e[0].encode('latin-1'))      # stable: equal keys in the order stored
            return 'ok', '{' + ','.join('s%s:%d' % (A.hx(k), z) for k, z in cur) + '}'
    except Refuse:
        return 'err', None
    return None, None


def _chk_only(checks, t, kind):
    for c in checks:
        if not _check(c, t, kind):
            raise Refuse('check')
    return t


def _place_all(kind, cur, vals):
    cur = list(cur)
    for v in vals:
        if kind in ('fi', 'ki'):
            cur.insert(0, v)
        elif kind in ('si', 'usi'):
            if v not in cur:
                cur = sorted(cur + [v])
        elif kind in ('mi', 'umi'):
            cur = sorted(cur + [v])
        elif kind == 'pi':
            cur = sorted(cur + [v], reverse=True)
        else:
            cur.append(v)
    return cur


def spec_check(case, ir, mr):
    if ir is None:
        return 'no result from the implementation'
    if 'CRASH' in ir:
        return 'memory error / abort in the implementation: ' + ir
    pc = parse_case(case)
    if pc is None:
        return None
    slot, opts, words, flag = pc
    kind = kind_of(slot)
    exp, val = expected(slot, opts, words, flag)
    if exp is None:
        return None
    if kind == 'fi':
        exp, val = _expected_fwd(slot, opts, words, exp, val)
    prop = ir.split(' ## ')[0].strip()
    outcome = prop.split(' ')[0]
    if exp == 'setup':
        return None if outcome == 'setup' else 'an option the destination kind cannot honour was accepted'
    if outcome == 'setup':
        return 'a legal configuration was refused at definition time'
    if exp == 'err':
        return None if outcome == 'err' else 'the values had to be refused but were accepted: ' + prop
    if outcome != 'ok':
        return 'the values were refused (%s); expected content %s' % (ir.split(' ## ')[-1].split(' ')[0], val)
    vals = dict(x.split('=', 1) for x in prop.split(' ')[1:] if '=' in x)
    if slot not in vals:
        return 'unexpected result ' + prop
    if flag:
        used = any(w in flag[1] for w in words)
        want = '1' if (used != flag[2]) else '0'
        if vals.get(flag[0]) != want:
            return 'flag %s is %s, expected %s' % (flag[0], vals.get(flag[0]), want)
    got = vals[slot]
    if isinstance(val, dict):
        m = re.match(r'^(\d+)\[([\d,]*)\]$', got)
        if not m:
            return 'unexpected result ' + prop
        size = int(m.group(1))
        bits = [int(x) for x in m.group(2).split(',')] if m.group(2) else []
        if bits != val['bits']:
            return 'positions set are %s, the values given are %s' % (bits, val['bits'])
        if bits and size <= max(bits):
            return 'size %d does not cover position %d' % (size, max(bits))
        return None
    if got != val:
        return 'final content %s, fold of the values given is %s' % (got, val)
    return None


def _expected_fwd(slot, opts, words, exp, val):
    """forward_list: the harness assigns the initial content in order, values go to the front"""
    if exp != 'ok':
        return exp, val
    init = None
    for o in opts:
        if o.startswith('init='):
            init = [int(x) for x in o[5:].split('~')]
    if not init or 'sort' in opts or ('clear' in opts and any(w in ('-l', '--list') for w in words)):
        return exp, val
    # expected() pushed the initial content to the front one by one: undo that for the part before
    cur = [int(x) for x in val[1:-1].split(',')] if val != '[]' else []
    k = len(cur) - len(init)
    return exp, '[' + ','.join(map(str, cur[:k] + init)) + ']'


def classify(case, ir, mr):
    pc = parse_case(case)
    if pc is None:
        return 'fold'
    slot, opts, words, flag = pc
    kind = kind_of(slot)
    if flag and any(w in flag[1] for w in words):
        return 'value-list-end'
    if kind in ('ai', 'ri') and ('uniq' in opts or 'uniq!' in opts):
        return 'array-unique-unfilled'
    if kind == 'vb':
        return 'vector-bool-growth'
    return 'fold'


def nontrivial(case, mr):
    return mr is not None and mr.startswith('ok') and not re.search(r'=(\[\]|\{\}|\d*\[\])( |$)', mr.split(' ## ')[0])


def histogram_keys(case, mr):
    pc = parse_case(case)
    if pc is None or not mr:
        return []
    slot, opts, words, flag = pc
    keys = [kind_of(slot) + ':' + mr.split(' ')[0]]
    nuse = sum(1 for w in words if not w.startswith('-'))
    keys.append('uses=%d' % nuse)
    if any(o.startswith('fmtpos=') for o in opts):
        keys.append('fmtpos:' + kind_of(slot) + ':' + mr.split(' ')[0])
    if flag:
        keys.append('flag-defined')
        if any(w in flag[1] for w in words):
            keys.append('flag-used:' + mr.split(' ')[0])
    for o in ('clear', 'sort', 'uniq', 'uniq!', 'multi'):
        if o in opts:
            keys.append(o)
    return keys


def shrink(case):
    pc = parse_case(case)
    if pc is None:
        return
    slot, opts, words, flag = pc
    toks = case.split(' ')
    head = toks[0]
    ftok = [t for t in toks if t.startswith('arg:') and kind_of(t.split(':', 3)[2]) == 'b']
    fspell = flag[1] if flag else []

    def line(o, w, keep_flag=True):
        f = (ftok[0] + ' ') if (ftok and keep_flag) else ''
        return '%s arg:l,list:%s:%s %s%s' % (head, slot, '/'.join(o), f, A.argv_tok(w))
    # drop the flag argument when it is not used
    if ftok and not any(w in fspell for w in words):
        yield line(opts, words, False)
    # drop one option
    for i in range(len(opts)):
        yield line(opts[:i] + opts[i + 1:], words)
    # drop one use (key + value, a free word, a flag word)
    i = 0
    while i < len(words):
        step = 1 if (words[i] in fspell or not words[i].startswith('-')) else 2
        w2 = words[:i] + words[i + step:]
        if w2 and w2[0].startswith('-'):
            yield line(opts, w2)
        i += step
    # drop one element of a value
    kind = kind_of(slot)
    sep = sep_of(kind, opts)
    for i, w in enumerate(words):
        if w.startswith('-'):
            continue
        parts = w.split(sep)
        if len(parts) > 1:
            for j in range(len(parts)):
                v = sep.join(parts[:j] + parts[j + 1:])
                if not v.startswith('-'):
                    yield line(opts, words[:i] + [v] + words[i + 1:])


CLAIM = {
    'text': 'Coq theorems (Properties_C06.v) over an executable model of the assign() functions of all container '
            'destinations (ArgH/Cont.v): for all 21 destination kinds, every option combination the setters accept and '
            'every list of uses, the destination equals the fold of the flat element sequence (cont_fold), hence is '
            'independent of how the sequence is cut into uses, lists and free values (cont_cut_independent); earlier '
            'content is discarded exactly once (cont_clear_once); sorting yields ascending order; checks reach every '
            'element; unique data drops resp. refuses duplicates (int containers, vector<string> after formatting, the '
            'keys of all four key-value destinations map / multimap / unordered_map / unordered_multimap<string,int>: '
            'cont_kv_unique - a key of the earlier content keeps exactly its entries, any other key given holds '
            'exactly its first pair, whatever insert() of the container does with a stored key; cont_kv_unique_refuse); '
            'without unique data map / unordered_map keep the first pair per key (cont_map_content), multimap holds '
            'every pair given behind the earlier entries of its key in the order given (cont_multimap_content), '
            'unordered_multimap all of them (cont_unordered_multimap_content); arrays, tuple and bitset refuse what '
            'they cannot hold; a free value after another argument (a '
            'flag) never reaches the container (cont_flag_ends_value_list); position formats (addFormatPos) follow the '
            'element that is filled - tuple element k gets the formats of position k, a vector<string> element the '
            'formats of the position it lands at - independent of the cut (cont_tuple_elements, cont_strs_content). '
            'Two defects of the pinned tree are proved on the pinned element steps (unique test of arrays on '
            'unfilled slots, vector<bool> of size 1 loses position 1) and repaired by fixes/C06-1, C06-2. The model is '
            'tied to the code by a correspondence check through the real Handler (all kinds x all option subsets x cuts).',
    'note': 'trusted: Coq kernel, extraction (ExtrOcamlBasic), the hand-written model (validated by correspondence on '
            'every run), the configuration translation of driver and harness; lexing of the command line is C01 (value '
            'words do not start with a dash); DynamicBitset destinations and key / value formats of the key-value '
            'destinations are not in the harness pool; unordered containers are compared in sorted order',
    'technique': 'Coq proof (refinement of the use-by-use evaluation to a fold over the concatenated elements, '
                 'permutation equivalence for sorting, history invariants); model/implementation correspondence, '
                 'exhaustive small scopes in the thorough tier',
    'design_ref': 'DESIGN.md section 5, C06',
}
