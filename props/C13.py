"""C13  Integer-to-string conversions are exact for every integer."""
import importlib
import os
import re
import subprocess
import sys
import time
from concurrent.futures import ThreadPoolExecutor

ID = 'C13'
_SRC = ['library/format/detail/%sint%d_to_string.cpp' % (g, n) for g in ('', 'grouped_') for n in (8, 16, 32, 64)]
# -value of INT32_MIN / INT64_MIN in intNnegToString is formally a signed overflow; the property is about the
# text produced, so that one UBSan check is off (see ASSUMPTIONS)
HARNESS = {'name': 'c13', 'sources': ['harness/c13_harness.cpp'], 'repo_sources': _SRC, 'sanitize': True,
           'flags': ['-fno-sanitize=signed-integer-overflow']}
WIDTHS = (8, 16, 32, 64)
FILLS = (0xaa, 0x55, 0xff, 0x39)

RULE = ('case = (width, signedness, bit pattern, group character, buffer slack, fill byte); each case calls '
        'int2string / grouped_int2string (string and buffer variant, buffer = exact-size heap block + slack under '
        'ASan) and stringTo<T> on the text. All 2^8 and 2^16 patterns of the small types for both signednesses; '
        'for 32/64 bit every 10^k-2..10^k+2, 2^k-2..2^k+2 (and their negatives), the type limits, 0, +-1 and '
        'seeded random patterns of every bit length; all 256 group characters for one value per digit count; '
        'stringTo<T> on hand-made and seeded texts. Non-trivial = more than one digit.')
TRUSTED_BASE = [
    'translator translate/tr_int2str.py (token-level parser of intN_str_length.hpp, convert() and '
    'checkAddGroupChar(); regenerates coq/Int2Str/Int2StrGen.v on every run, refuses what it does not recognise)',
    'semantics of the IR in Int2Str/Int2StrIR.v and the hand-written wrapper / dispatch / stringTo model '
    'Int2Str/Int2StrModel.v; tied by the correspondence check of this run on the public functions',
    'extraction: ExtrOcamlBasic only; N, Z, nat stay extracted datatypes; ocaml/c13_driver.ml does I/O only',
    'C++ harness harness/c13_harness.cpp (g++ 12 -O1, ASan+UBSan without signed-integer-overflow); the range '
    'sweep compares against snprintf of the C library',
]
ASSUMPTIONS = [
    'the caller\'s buffer has at least text length + 1 bytes (the theorems show exactly these are written)',
    'negation of the minimum of int32_t / int64_t (-value, formally signed overflow) wraps to 2^(N-1) as it does '
    'with this compiler; the model negates in the unsigned type',
    'long / unsigned long are 64 bit (std::stol / std::stoul in stringTo<int64_t> / stringTo<uint64_t>)',
]


def translate(repo, coq):
    sys.path.insert(0, '/verif/translate')
    import tr_int2str
    importlib.reload(tr_int2str)
    return tr_int2str.translate(repo, coq)


# ---------------------------------------------------------------------------
# the specification on python integers

def value_of(bits, sg, pat):
    return pat - (1 << bits) if sg and pat >= 1 << (bits - 1) else pat


def group3(text, sep):
    """bytes: separator between every three digits counted from the right, sign kept in front"""
    sign, digits = (b'-', text[1:]) if text.startswith('-') else (b'', text)
    out = bytearray()
    n = len(digits)
    for i, ch in enumerate(digits):
        if i > 0 and (n - i) % 3 == 0:
            out.append(sep)
        out.append(ord(ch))
    return sign + bytes(out)


def _acase(bits, sg, pat, sep=0x27, slack=0, fill=0xaa):
    pat &= (1 << bits) - 1
    text = str(value_of(bits, sg, pat))
    return 'a %d %s %0*x %02x %d %d %02x' % (bits, 's' if sg else 'u', bits // 4, pat, sep,
                                             len(text) + 1 + slack, len(group3(text, sep)) + 1 + slack, fill)


def _pcase(bits, sg, text):
    if isinstance(text, str):
        text = text.encode()
    return 'p %d %s %s' % (bits, 's' if sg else 'u', text.hex() or '-')


def _interesting(bits):
    """bit patterns around every power of ten and of two, +- as two's complement"""
    mask = (1 << bits) - 1
    vals = {0, 1, 2, mask, mask - 1, 1 << (bits - 1), (1 << (bits - 1)) - 1, (1 << (bits - 1)) + 1}
    k = 1
    while k <= mask + 3:
        for d in range(-2, 3):
            vals.add(k + d)
            vals.add(-(k + d))
        k *= 10
    for e in range(bits + 1):
        for d in range(-2, 3):
            vals.add((1 << e) + d)
            vals.add(-((1 << e) + d))
    return sorted({v & mask for v in vals})


def gen_cases(tier, rng):
    cases = []
    # corpus: the decade boundaries a wrong constant would move, minima, zero
    for bits in WIDTHS:
        for sg in (False, True):
            for pat in (0, 1 << (bits - 1), (1 << bits) - 1, 9, 10, 99, 100, 999 & ((1 << bits) - 1)):
                cases.append(_acase(bits, sg, pat, slack=2))
    # exhaustive small types
    n = 0
    for bits in (8, 16):
        for sg in (False, True):
            for pat in range(1 << bits):
                cases.append(_acase(bits, sg, pat, 0x27, 2 if pat % 3 == 0 else 0, FILLS[pat % 4]))
                n += 1
    # boundaries and random patterns of the wide types
    nrand = 1500 if tier == 'quick' else 60000
    for bits in (32, 64):
        for sg in (False, True):
            for pat in _interesting(bits):
                cases.append(_acase(bits, sg, pat, 0x27, 0, 0xaa))
                cases.append(_acase(bits, sg, pat, 0x2c, 3, 0x39))
            for _ in range(nrand):
                nb = rng.range(1, bits)                      # every bit length (hence every digit count) is hit
                pat = rng.next() & ((1 << nb) - 1)
                if rng.chance(1, 3):
                    pat = (-pat) & ((1 << bits) - 1)
                cases.append(_acase(bits, sg, pat, rng.choice([0x27, 0x2c, 0x2e, 0x20, 0x5f]),
                                    rng.choice([0, 0, 1, 5]), rng.choice(FILLS)))
    # all group characters, one value per digit count (positive and negative)
    for bits in WIDTHS:
        mask = (1 << bits) - 1
        k = 1
        d = 0
        while k <= mask:
            v = min(mask, k * 10 - 1) - d           # d makes the digits differ a little between counts
            for sep in range(256):
                cases.append(_acase(bits, False, v, sep, 1, 0xaa))
                if v <= mask >> 1:
                    cases.append(_acase(bits, True, -v, sep, 0, 0x55))
            k *= 10
            d += 1
        for sep in range(256):
            cases.append(_acase(bits, True, 1 << (bits - 1), sep, 0, 0xaa))
    # stringTo<T> on texts that are not produced by int2string
    texts = ['0', '-0', '+7', ' 42', '\t\n-13', '007', '12ab', '1,234', "1'234", '', '-', '+', 'abc', ' ', '--1', '+-1',
             '255', '256', '-129', '-128', '127', '128', '32767', '32768', '-32768', '-32769', '65535', '65536',
             '2147483647', '2147483648', '-2147483648', '-2147483649', '4294967295', '4294967296',
             '9223372036854775807', '9223372036854775808', '-9223372036854775808', '-9223372036854775809',
             '18446744073709551615', '18446744073709551616', '-18446744073709551615', '-18446744073709551616', '-1',
             '99999999999999999999999', '0x10', '1e3', '12 34', '\x0b5', '\x0c6', '\r7']
    for bits in WIDTHS:
        for sg in (False, True):
            for t in texts:
                cases.append(_pcase(bits, sg, t))
            for _ in range(150 if tier == 'quick' else 2000):
                ln = rng.range(1, 22)
                alphabet = '0123456789' * 4 + '-+ a\t'
                t = ''.join(rng.choice(alphabet) for _ in range(ln))
                if rng.chance(1, 2):
                    t = rng.choice(['-', '', '+', ' ']) + t.lstrip('-+ a\t')
                cases.append(_pcase(bits, sg, t))
    return {'cases': cases, 'exhaustive': True,
            'scopes': ['exhaustive: all 2^8 and all 2^16 bit patterns, signed and unsigned (%d cases), each through '
                       'int2string, int2string(buffer), grouped_int2string, grouped_int2string(buffer), stringTo' % n,
                       'exhaustive: all 256 group characters for one value per digit count of every width, positive, '
                       'negative and the minimum',
                       '32/64 bit: every 10^k-2..10^k+2 and 2^k-2..2^k+2 and their negatives, limits, 0, +-1, '
                       '%d seeded random patterns per type spread over all bit lengths' % nrand,
                       'stringTo<T>: %d hand-made texts per type (limits +-1 of every std:: conversion, signs, white '
                       'space, trailing garbage, empty) and seeded random texts' % len(texts)]}


def histogram_keys(case, mr):
    w = case.split(' ')
    if w[0] == 'a':
        m = re.search(r'len=(\d+)', mr or '')
        return ['%s%s digits=%s' % (w[2], w[1], m.group(1) if m else '?')]
    return ['parse %s%s %s' % (w[2], w[1], (mr or '?').split(' ')[0][:2])]


def nontrivial(case, mr):
    if case.startswith('a'):
        m = re.search(r'len=(\d+)', mr or '')
        return bool(m) and int(m.group(1)) > 1
    return mr.startswith('V:')


def _fields(r):
    return dict(f.split('=', 1) for f in r.split('##')[0].split(' ') if '=' in f)


def spec_check(case, ir, mr):
    """the property restated on the observable result of one case (search / triage only)"""
    if ir is None:
        return None          # the harness did not get that far (reported as a harness error, not as an input)
    if 'CRASH' in ir:
        return 'memory error / abort in the implementation: ' + ir
    w = case.split(' ')
    bits, sg = int(w[1]), w[2] == 's'
    if w[0] == 'p':
        text = bytes.fromhex(w[3]) if w[3] != '-' else b''
        m = re.fullmatch(rb'-?(0|[1-9][0-9]*)', text)
        if m:
            v = int(text)
            lo, hi = (-(1 << (bits - 1)), (1 << (bits - 1)) - 1) if sg else (0, (1 << bits) - 1)
            if lo <= v <= hi and not (text.startswith(b'-') and not sg):
                want = 'V:%0*x' % (bits // 4, v & ((1 << bits) - 1))
                if ir.split('##')[0].strip() != want:
                    return 'stringTo of the decimal text of %d gives %s' % (v, ir)
        return None
    pat, sep, psize, gsize, fill = int(w[3], 16), int(w[4], 16), int(w[5]), int(w[6]), int(w[7], 16)
    v = value_of(bits, sg, pat)
    text = str(v).encode()
    gtext = group3(str(v), sep)
    f = _fields(ir)

    def unhex(s):
        return b'' if s == '-' else bytes.fromhex(s)
    try:
        if unhex(f['str']) != text:
            return 'int2string(%d) returned %r' % (v, unhex(f['str']))
        if unhex(f['gstr']) != gtext:
            return 'grouped_int2string(%d, %r) returned %r' % (v, chr(sep), unhex(f['gstr']))
        for key, want, size in (('buf', text, psize), ('gbuf', gtext, gsize)):
            ret, blk = f[key].split(':')
            blk = unhex(blk)
            if int(ret) != len(want):
                return '%s variant of %d returned length %s instead of %d' % (key, v, ret, len(want))
            if blk[:len(want) + 1] != want + b'\0':
                return '%s variant of %d wrote %r' % (key, v, blk[:len(want) + 1])
            if blk[len(want) + 1:] != bytes([fill]) * (size - len(want) - 1):
                return '%s variant of %d changed bytes behind the terminating NUL' % (key, v)
        if f['rt'] != '%0*x' % (bits // 4, pat):
            return 'stringTo(int2string(%d)) gives %s' % (v, f['rt'])
    except (KeyError, ValueError):
        return 'malformed result: ' + ir
    return None


def classify(case, ir, mr):
    """label = which part of the property the result violates (falls back to the first differing field)"""
    if case.startswith('p'):
        return 'stringTo'
    if ir is not None and 'CRASH' in ir:
        return 'memory'
    reason = spec_check(case, ir, mr) or ''
    for key, lab in (('int2string(', 'exact'), ('grouped_int2string(', 'grouped'), ('gbuf variant', 'grouped-buffer'),
                     ('buf variant', 'buffer'), ('stringTo(', 'roundtrip')):
        if reason.startswith(key):
            return lab
    a, b = _fields(ir or ''), _fields(mr or '')
    for k, lab in (('str', 'exact'), ('buf', 'buffer'), ('gstr', 'grouped'), ('gbuf', 'grouped-buffer'),
                   ('rt', 'roundtrip')):
        if a.get(k) != b.get(k):
            return lab
    return 'other'


def shrink(case):
    w = case.split(' ')
    if w[0] != 'a':
        text = bytes.fromhex(w[3]) if w[3] != '-' else b''
        for i in range(len(text)):
            yield _pcase(int(w[1]), w[2] == 's', text[:i] + text[i + 1:])
        return
    bits, sg, pat, sep = int(w[1]), w[2] == 's', int(w[3], 16), int(w[4], 16)
    v = value_of(bits, sg, pat)
    cands = []
    if sep != 0x27:
        cands.append((v, 0x27))
    a = abs(v)
    k = 10 ** (len(str(a)) - 1)
    for c in (k, k + 1, 10 * k - 1, a // 10, a - a % 10, a // 2):
        if 0 <= c < a:
            cands.append((c if v >= 0 else -c, sep))
    for c, s in cands:
        yield _acase(bits, sg, c, s, 0, 0xaa)


# ---------------------------------------------------------------------------
# failing-input search: ranges of 32-bit values against snprintf, on the implementation only

def extra_stage(tier, seed, work):
    import vf
    exe, err = vf.build_harness('c13sweep', HARNESS['sources'], HARNESS['repo_sources'], sanitize=False,
                                extra_flags=['-O2'])
    if exe is None:
        return {'violations': [{'label': 'sweep-build', 'text': 'sweep build failed: ' + err[-400:],
                                'found_input': False}]}
    jobs = []
    if tier == 'thorough':
        chunk = 1 << 26
        for sg in ('u', 's'):
            for first in range(0, 1 << 32, chunk):
                jobs.append((32, sg, first, chunk))
    else:
        rng = vf.Rng(seed + 13)
        chunk = 1 << 19
        for sg in ('u', 's'):
            for _ in range(8):
                jobs.append((32, sg, rng.below((1 << 32) - chunk), chunk))
            jobs.append((64, sg, rng.next() & ((1 << 63) - 1), chunk))
            jobs.append((64, sg, (1 << 64) - (chunk >> 1), chunk))     # wraps through 0 / -1
    t0 = time.time()
    bad = []
    total = 0

    def run(j):
        p = subprocess.run([str(exe), '--sweep', str(j[0]), j[1], '%x' % j[2], str(j[3])], stdout=subprocess.PIPE,
                           stderr=subprocess.PIPE, text=True, timeout=3000)
        return j, p.returncode, p.stdout

    with ThreadPoolExecutor(max_workers=min(8, os.cpu_count() or 8)) as ex:
        for j, rc, out in ex.map(run, jobs):
            m = re.search(r'sweep-done (\d+) (\d+)', out)
            if rc != 0 or not m:
                bad.append(('%d %s %x' % j[:3], 'sweep process failed (exit %d)' % rc))
                continue
            total += int(m.group(1))
            for hx, what in re.findall(r'sweep-bad (\S+) (\S+)', out):
                bad.append((_acase(j[0], j[1] == 's', int(hx, 16)), what))
    res = {'sweep_values': total, 'sweep_seconds': round(time.time() - t0, 1),
           'sweep_scope': 'all 2^32 patterns of uint32_t and int32_t' if tier == 'thorough' else
                          '8 seeded windows of 2^19 patterns per 32-bit type, 2 windows per 64-bit type',
           'sweep_mismatches': len(bad)}
    if bad:
        res['violations'] = [{'label': 'sweep', 'text': '%s differs from snprintf for case %s' % (what, c),
                              'case': c, 'kind': 'failing-input', 'found_input': True,
                              'replay_cmd': 'cd /verif && ./check C13 --replay %r' % c} for c, what in bad[:3]]
    return res


CLAIM = {
    'text': 'Coq theorems (Properties_C13.v), for every value of all eight integer types (bit patterns below 2^N, '
            'N in 8/16/32/64, signed and unsigned, including 0 and the minima) and every group character: '
            'int2string returns exactly the canonical decimal text; grouped_int2string that text with the group '
            'character at every fourth position from the right and never next to the sign; the buffer variants '
            'write text + NUL at the start of the caller\'s buffer, leave every other byte unchanged, return the '
            'text length and make no store outside a buffer with room for text + NUL; stringTo<T> of the text gives '
            'the value back. The digit-count decision trees and the fall-through switches are regenerated from the '
            'C++ source on every run (translator) and enter the proofs through two verified checkers evaluated by '
            'vm_compute; the wrappers, the tag dispatch and stringTo are a hand-written model tied by the '
            'correspondence check (all 2^8 and 2^16 patterns, decade / power-of-two boundaries and random patterns '
            'of the wide types, all 256 group characters, ASan+UBSan). The thorough tier additionally compares all '
            '2^32 patterns of both 32-bit types against snprintf on the implementation.',
    'note': 'trusted: Coq kernel, the translator\'s parser, the IR semantics, extraction (ExtrOcamlBasic), the '
            'hand-written wrapper/stringTo model (validated by correspondence on every run), libc snprintf in the '
            'sweep. -value of INT32_MIN / INT64_MIN in intNnegToString is formally a signed overflow; it produces '
            'the correct text with this compiler and is modelled as negation in the unsigned type (UBSan\'s '
            'signed-integer-overflow check is off in the harness for that reason) - observation, not a violation.',
    'technique': 'translator + verified checkers (interval checker for the decision trees, symbolic trace checker for '
                 'the switches) + Coq proofs over the type\'s full range; model/implementation correspondence, '
                 'exhaustive for the 8/16-bit types; exhaustive 32-bit sweep of the implementation in the thorough tier',
    'design_ref': 'DESIGN.md section 5, C13',
}
