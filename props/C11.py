"""C11  Fixed-capacity string equals std::string cut off at the capacity.

Shares the harness, the model and the generators with C10 (props/C10.py)."""
import importlib.util
import sys

_spec = importlib.util.spec_from_file_location('prop_C10_shared', '/verif/props/C10.py')
G = importlib.util.module_from_spec(_spec)
sys.modules['prop_C10_shared'] = G
_spec.loader.exec_module(G)

ID = 'C11'
HARNESS = dict(G.HARNESS)

RULE = ('case = capacity L x initial content of the object and of a second object x list of operations (mode D: '
        'before every step a real std::string is loaded with the text of the object, the operation is applied to both, '
        'compared are return value and content with the std::string cut at L; steps whose std::string counterpart '
        'throws or that lie outside the documented domain are skipped on both sides as "ood"). Exhaustive part: L in '
        '1..2 (quick) / 1..3 (thorough), every content over {a,b}, every operation with positions/counts 0..L+2 and '
        'npos, sources of length 0..L+2. Random part: histories of 4..24 operations on L in {4,5,8,10,255,256,300} '
        '(sprintf texts up to 600 characters: length-type boundary). A case is non-trivial when at least one step is '
        'inside the domain.')
TRUSTED_BASE = [
    'model FixedStr/FsModel.v and specification FixedStr/FsStd.v (std::string operations written from the C++ '
    'standard, with the domain predicate = std_step returning Some); both are tied by the correspondence check: the '
    'model against FixedString<L>, the specification against the real libstdc++ std::string run in the same harness',
    'extraction: ExtrOcamlBasic only; ocaml/c11_driver.ml (= c10_driver.ml) does I/O only and prints the verdict '
    '"eq" as the property demands it',
    'C++ harness harness/c10_*.cpp (mode D), g++ 12 -O1 ASan+UBSan, libstdc++ std::string as reference',
]
ASSUMPTIONS = list(G.ASSUMPTIONS) + [
    'documented domain: the std::string counterpart is defined and does not throw; (pointer, count) arguments with '
    'count <= strlen; find family / contains with a non-empty needle and a start position inside the string or the '
    'default of the overload; insert/erase iterators not end(); pop_back/front/back on a non-empty string; '
    'repeat counts up to 2^20; at(length) is documented by the class as returning the terminator and is outside',
]


def gen_cases(tier, rng):
    quick = tier == 'quick'
    caps = [1, 2] if quick else [1, 2, 3]
    cases = list(G.CORPUS_D)
    cases += G.gen_exhaustive('D', caps)
    if not quick:
        cases += G.gen_two_step('D', [1, 2])
    nrand = 1500 if quick else 15000
    cases += G.gen_random('D', rng, nrand)
    return {'cases': cases, 'exhaustive': True,
            'scopes': ['exhaustive: L in %s, all contents over {a,b}, every operation with positions/counts in 0..L+2 and '
                       'npos, sources of length 0..L+2' % caps]
                      + ([] if quick else ['exhaustive: two-step mutator histories on L in 1..2'])
                      + ['random: %d histories of 4..24 operations on L in %s' % (nrand, G.LARGE_CAPS)]}


steps = G.steps
histogram_keys = G.histogram_keys
shrink = G.shrink


def nontrivial(case, mr):
    return any(s != 'ood' and not s.startswith('unsupported') for s in steps(mr))


def _split(step):
    """'rF;cF|rS;cS|flag;verdict' -> (rF, cF, rS, cS, flag, verdict)"""
    parts = step.split('|')
    if len(parts) != 3:
        return None
    a, b, c = parts
    if ';' not in a or ';' not in b or ';' not in c:
        return None
    rF, cF = a.rsplit(';', 1)
    rS, cS = b.rsplit(';', 1)
    flag, verdict = c.split(';', 1)
    return rF, cF, rS, cS, flag, verdict


def _first_diff(case, ir):
    ops = case.split(' ')[4:]
    for i, s in enumerate(steps(ir)):
        if s == 'ood':
            continue
        t = _split(s)
        if t is None:
            return i, (ops[i] if i < len(ops) else '?'), 'unreadable step result ' + s[:60]
        rF, cF, rS, cS, flag, verdict = t
        if rF != rS:
            return i, ops[i], 'returns %s, std::string returns %s' % (rF, rS)
        if cF != cS:
            return i, ops[i], 'content %s, std::string cut at L gives %s' % (cF, cS)
    return None, None, None


def spec_check(case, ir, mr):
    """C11 restated on the observable result: inside the domain every step returns what std::string returns and
    leaves the content std::string has, cut at L"""
    if ir is None:
        return 'no result from the implementation'
    if 'CRASH' in ir:
        return 'memory error / abort in the implementation: ' + ir[:120]
    if 'unsupported' in ir or 'bad-case' in ir:
        return 'harness does not know this case: ' + ir[:80]
    i, op, why = _first_diff(case, ir)
    if i is not None:
        return 'step %d (%s): FixedString %s' % (i, op, why)
    return None


def classify(case, ir, mr):
    ops = case.split(' ')[4:]
    if ir is None or 'CRASH' in ir:
        return G.classify(case, ir, mr)
    i, op, why = _first_diff(case, ir)
    if i is not None:
        return G.op_family(op)
    for i, (a, b) in enumerate(zip(steps(ir), steps(mr))):
        if a != b:
            return G.op_family(ops[i])
    return 'unclassified'


CLAIM = {
    'text': 'Coq theorems (Properties_C11.v): for every capacity, every well-formed object and every argument inside the '
            'documented domain, each of the 40 modelled modifying entry points (constructors, assign, insert / erase / '
            'push_back / pop_back / append / sprintf / replace families incl. iterator overloads, swap, clear) leaves exactly '
            'the text std::string has after the same operation, cut at L (C11_mutators_refine); the 9 compare overloads, '
            'starts_with, substr, copy, at/front/back/length/empty/str, == and != and the traversal in both directions return '
            'what std::string returns (C11_observers_refine_partial, C11_iteration_forward/reverse); == and != are '
            'complementary for all operands. The std::string specification '
            '(FsStd.v) is itself run against the real libstdc++ std::string in the harness. ends_with, contains, the 30 find '
            'overloads and single iterator steps (--, +=, -=) are covered by the correspondence check only (model = code and '
            'code = std::string on every in-domain case of the exhaustive small scopes and the random histories). Seven '
            'deviations of the pinned tree were found and repaired (fixes/C11-1..3, C10-2, C10-4, C10-5, C10-7).',
    'note': 'trusted: Coq kernel, extraction, the hand-written model and specification (both validated by correspondence on '
            'every run), the harness, libstdc++ as reference. Deliberately outside the domain (decided in DESIGN.md section 8): '
            'at(length) returning the terminator, empty needles for find/contains, backward searches with an explicit start '
            'position >= length, insert/erase at end() through iterators (documented as invalid by the class). Not modelled: '
            'see the note of C10.',
    'technique': 'Coq refinement proof (abstraction to the text, std::string operations as list functions, pointwise list '
                 'reasoning); differential correspondence check against FixedString<L> and std::string',
    'design_ref': 'DESIGN.md section 5, C10/C11; section 8 rows 3, 6-10',
}
