"""C11  Fixed-capacity string equals std::string cut off at the capacity.

Shares the harness, the model and the generators with C10 (props/C10.py)."""
import importlib.util
import sys

_spec = importlib.util.spec_from_file_location('prop_C10_shared', '/verif/props/C10.py')
G = importlib.util.module_from_spec(_spec)
sys.modules['prop_C10_shared'] = G
_spec.loader.exec_module(G)

ID = 'C11'
HARNESS = dict(G.HARNESS)

RULE = ('case = capacity L x initial content of the object and of a second object x list of operations (mode D: '
        'before every step a real std::string is loaded with the text of the object, the operation is applied to both, '
        'compared are return value and content with the std::string cut at L; steps whose std::string counterpart '
        'throws or that lie outside the documented domain are skipped on both sides as "ood"). Exhaustive part: L in '
        '1..2 (quick) / 1..3 (thorough), every content over {a,b}, every operation with positions/counts 0..L+2 and '
        'npos, sources of length 0..L+2. Random part: histories of 4..24 operations on L in {4,5,8,10,255,256,300} '
        '(sprintf texts up to 600 characters: length-type boundary). A case is non-trivial when at least one step is '
        'inside the domain.')
TRUSTED_BASE = [
    'model FixedStr/FsModel.v and specification FixedStr/FsStd.v (std::string operations written from the C++ '
    'standard, with the domain predicate = std_step returning Some); both are tied by the correspondence check: the '
    'model against FixedString<L>, the specification against the real libstdc++ std::string run in the same harness',
    'extraction: ExtrOcamlBasic only; ocaml/c11_driver.ml (= c10_driver.ml) does I/O only and prints the verdict '
    '"eq" as the property demands it',
    'C++ harness harness/c10_*.cpp (mode D), g++ 12 -O1 ASan+UBSan, libstdc++ std::string as reference',
]
ASSUMPTIONS = list(G.ASSUMPTIONS) + [
    'documented domain: the std::string counterpart is defined and does not throw; (pointer, count) arguments with '
    'count <= strlen; find family / contains with a non-empty needle and a start position inside the string or the '
    'default of the overload; insert/erase iterators not end(); pop_back/front/back on a non-empty string; '
    'repeat counts up to 2^20; at(length) is documented by the class as returning the terminator and is outside; '
    'for the strchr() based overloads of the four character-class searches: no NUL character in the text and in the '
    'character set (FindOk in Properties_C11.v)',
]


def gen_cases(tier, rng):
    quick = tier == 'quick'
    caps = [1, 2] if quick else [1, 2, 3]
    cases = list(G.CORPUS_D)
    cases += G.gen_exhaustive('D', caps)
    if not quick:
        cases += G.gen_two_step('D', [1, 2])
    nrand = 1500 if quick else 15000
    cases += G.gen_random('D', rng, nrand)
    fail_cases, fail_info = G.gen_sprintf_fail('D', tier)
    cases += fail_cases
    mixed_cases, mixed_info = G.gen_mixed('D', tier)
    cases += mixed_cases
    fail_info = fail_info + mixed_info
    return {'cases': cases, 'exhaustive': True,
            'scopes': ['exhaustive: L in %s, all contents over {a,b}, every operation with positions/counts in 0..L+2 and '
                       'npos, sources of length 0..L+2' % caps]
                      + ([] if quick else ['exhaustive: two-step mutator histories on L in 1..2'])
                      + ['random: %d histories of 4..24 operations on L in %s' % (nrand, G.LARGE_CAPS)] + fail_info}


steps = G.steps
histogram_keys = G.histogram_keys
shrink = G.shrink


def nontrivial(case, mr):
    return any(s != 'ood' and not s.startswith('unsupported') for s in steps(mr))


def _split(step):
    """'rF;cF|rS;cS|flag;verdict' -> (rF, cF, rS, cS, flag, verdict)"""
    parts = step.split('|')
    if len(parts) != 3:
        return None
    a, b, c = parts
    if ';' not in a or ';' not in b or ';' not in c:
        return None
    rF, cF = a.rsplit(';', 1)
    rS, cS = b.rsplit(';', 1)
    flag, verdict = c.split(';', 1)
    return rF, cF, rS, cS, flag, verdict


def _first_diff(case, ir):
    ops = case.split(' ')[4:]
    for i, s in enumerate(steps(ir)):
        if s == 'ood':
            continue
        t = _split(s)
        if t is None:
            return i, (ops[i] if i < len(ops) else '?'), 'unreadable step result ' + s[:60]
        rF, cF, rS, cS, flag, verdict = t
        if rF != rS:
            return i, ops[i], 'returns %s, std::string returns %s' % (rF, rS)
        if cF != cS:
            return i, ops[i], 'content %s, std::string cut at L gives %s' % (cF, cS)
    return None, None, None


def spec_check(case, ir, mr):
    """C11 restated on the observable result: inside the domain every step returns what std::string returns and
    leaves the content std::string has, cut at L"""
    if ir is None:
        return 'no result from the implementation'
    if 'CRASH' in ir:
        return 'memory error / abort in the implementation: ' + ir[:120]
    if 'unsupported' in ir or 'bad-case' in ir:
        return 'harness does not know this case: ' + ir[:80]
    i, op, why = _first_diff(case, ir)
    if i is not None:
        return 'step %d (%s): FixedString %s' % (i, op, why)
    return None


def classify(case, ir, mr):
    ops = case.split(' ')[4:]
    if ir is None or 'CRASH' in ir:
        return G.classify(case, ir, mr)
    i, op, why = _first_diff(case, ir)
    if i is not None:
        if op.startswith('Frfind_ch:00:'):
            return 'rfind_ch_nul'
        return G.op_family(op)
    for i, (a, b) in enumerate(zip(steps(ir), steps(mr))):
        if a != b:
            return G.op_family(ops[i])
    return 'unclassified'


CLAIM = {
    'text': 'Coq theorems (Properties_C11.v), all closed under the global context: for every two capacities (object / other '
            'object, independent), every well-formed pair of objects and every argument inside the documented domain, (1) each of the 42 modelled modifying entry points '
            '(constructors incl. the converting constructor from another capacity, assign, insert / erase / push_back / pop_back / append / sprintf / replace families incl. iterator '
            'overloads, swap, clear; a sprintf whose conversion fails is specified as "assign the empty string") leaves exactly the text std::string has after the same operation, cut at L '
            '(C11_mutators_refine); (2) each of the 49 observing entry points - the 9 compare overloads, starts_with / ends_with '
            '/ contains (4 overloads each), substr, copy, at/front/back/length/empty/str, == and !=, the traversal in both '
            'directions, single iterator steps ++ / -- / += / -= with operator*, and all 30 overloads of find, rfind, '
            'find_first_of, find_first_not_of, find_last_of, find_last_not_of - returns exactly what std::string returns on the '
            'same text and changes nothing (C11_observers_refine); (3) both in one statement (C11_step_refines) and along any '
            'history of operations, with the std::string texts cut at L after every step (C11_history_refines); (4) == and != '
            'are complementary for all operands. The std::string specification (FsStd.v) is itself run against the real '
            'libstdc++ std::string in the harness; the model is tied to the code by the correspondence check (exhaustive '
            'small scopes, random histories). Eight deviations of the pinned tree were found; seven are repaired in /repo '
            '(fixes/C11-1..3, C10-2, C10-4, C10-5, C10-7), the eighth (rfind of the NUL character, found while proving the '
            'find family) is a known finding with the repair ready in fixes/C11-4-rfind-char-terminator.patch.',
    'note': 'trusted: Coq kernel, extraction, the hand-written model and specification (both validated by correspondence on '
            'every run), the harness, libstdc++ as reference. Domain (part of the statements: std_step = Some, CstrsOk, '
            'FindOk): the std::string counterpart is defined and does not throw; C string arguments end at their terminator; '
            'for the strchr() based overloads of find_first_of / find_first_not_of / find_last_of / find_last_not_of '
            '(FixedString, std::string and C string needle) neither the text nor the character set holds a NUL character; '
            'deliberately outside (DESIGN.md section 8): at(length) returning the terminator, empty needles for find/contains, '
            'backward searches with an explicit start position >= length, insert/erase at end() through iterators. The model '
            'of rfind( ch) mirrors the code with fixes/C11-4 applied; until that patch is in /repo the one corpus case '
            'rfind( NUL) is reported as KNOWN-FINDING. Not modelled: see the note of C10.',
    'technique': 'Coq refinement proof (abstraction to the text, std::string operations as list functions, pointwise list '
                 'reasoning, least/greatest-position characterisation of the search loops, induction over histories); '
                 'differential correspondence check against FixedString<L> and std::string',
    'design_ref': 'DESIGN.md section 5, C10/C11; section 8 rows 3, 6-10',
}
