"""C09  Independent handlers can be used concurrently.

Proof: Properties_C09.v instantiates the non-interference theorem of coq/Conc/SharedProofs.v with the
inventory of static objects that translate/tr_statics.py extracts on every run (coq/Conc/SharedGen.v).
Search/tie on the real code (extra_stage): ThreadSanitizer build of harness/c09_harness.cpp with the
argument-handler library sources, 2..16 threads, results compared with the sequential run."""
import importlib
import json
import os
import re
import sys

sys.path.insert(0, '/verif/lib')
sys.path.insert(0, '/verif/props')
import vf  # noqa
import args_common  # noqa

ID = 'C09'
HARNESS = None          # everything on the real code happens in extra_stage
PROVE_TIMEOUT = 900

RULE = ('N threads (2,3,4,8,16 quick / 2..16 thorough), R rounds: thread t of round r builds its own Handler '
        '(vector<int>, two vector<string> destinations with list separators chosen from 16 characters by (t+r), range / '
        'lower / upper / values / minLength checks, cardinality, upper-case format, a requires constraint, a mandatory '
        'argument; flag hfReadProgArg with a program name and an argument file of its own, whose value is known without a reference run) and evaluates its own line (values contain the separators of other threads, so a foreign separator '
        'changes the tokens; some lines are rejected by a check or an unknown argument); the outcome (destination '
        'values or exception text) is compared with the same job run alone; the whole run under ThreadSanitizer.')
TRUSTED_BASE = [
    'translator translate/tr_statics.py: objects with static storage duration = symbols that g++ 12 placed in a data '
    'section (nm -C -l) of the compiled argument-handler sources and of the harness that instantiates the header '
    'templates, restricted to definitions in <repo>/src; const-ness read from the declaration at the reported source '
    'line; translate/c09_allowlist.json (2 entries, justified) marks the Groups singleton as not on the path of an '
    'independent handler. Regenerates coq/Conc/SharedGen.v on every run',
    'model Conc/Shared.v: a thread is any straight-line list of actions that respects the classification of the '
    'inventory; all other state is thread-owned (the handler object and its destinations)',
    'interleaving semantics Conc/Interleave.v (sequentially consistent memory; race = two enabled conflicting '
    'accesses, one of them plain)',
    'g++ 12 ThreadSanitizer, harness/c09_harness.cpp',
]
ASSUMPTIONS = [
    'handlers share no destination variables and are not members of an argument group (Groups singleton), usage '
    'output is not requested concurrently',
    'sharing through the heap, libstdc++ / Boost internals (locale, lexical_cast) and weak-memory effects are '
    'outside the inventory: covered only by the ThreadSanitizer run',
]


def translate(repo, coq):
    sys.path.insert(0, '/verif/translate')
    import tr_statics
    importlib.reload(tr_statics)
    return tr_statics.translate(repo, coq)


TSAN_ENV = {'TSAN_OPTIONS': 'halt_on_error=0:exitcode=0:report_thread_leaks=0', 'VERIF_WORK': '/verif/.work'}


def _replay_arg():
    if '--replay' in sys.argv:
        v = sys.argv[sys.argv.index('--replay') + 1]
        if os.path.exists(v):
            try:
                v = json.load(open(v)).get('case')
            except (ValueError, OSError):
                return None
        return v
    return None


# resolved when the plugin is loaded: run_check() clears replays/<ID>/ before extra_stage runs
_REPLAY = _replay_arg()


def _tsan(err):
    n = len(re.findall(r'WARNING: ThreadSanitizer: data race', err))
    summ = re.findall(r'SUMMARY: ThreadSanitizer: ([^\n]+)', err)
    summ = [re.sub(r'\S*/src/', 'src/', s) for s in summ]
    where = []
    for m in re.finditer(r"Location is global '([^']+)'", err):
        if m.group(1) not in where and m.group(1) != '<null>':
            where.append(m.group(1))
    return n, sorted(set(summ))[:3], where[:3]


def extra_stage(tier, seed, work):
    importlib.reload(args_common)
    res = {'violations': [], 'runs': 0, 'jobs': 0, 'accepted_jobs': 0, 'mismatches': 0, 'tsan_reports': 0, 'configs': []}
    exe, err = vf.build_harness('c09_tsan', ['harness/c09_harness.cpp'], args_common.repo_sources(), sanitize=False,
                                extra_flags=['-fsanitize=thread'])
    if exe is None:
        res['violations'].append({'label': 'harness-build', 'found_input': False,
                                  'text': 'harness/c09_harness.cpp + library sources do not compile: ' + err[-400:]})
        return res
    if _REPLAY:
        w = _REPLAY.split()
        cfgs = [(int(w[0][2:]), int(w[1][7:]))]
    elif tier == 'quick':
        cfgs = [(n, 6) for n in (2, 3, 4, 8, 16)]
    else:
        cfgs = [(n, 150) for n in range(2, 17)]
    seen = set()

    def violation(label, n, rounds, text, observed):
        if label in seen:
            return
        seen.add(label)
        case = 'n=%d rounds=%d' % (n, rounds)
        res['violations'].append({'label': label, 'found_input': True, 'text': text, 'case': case,
                                  'observed': observed[:600],
                                  'replay_cmd': "cd /verif && ./check C09 --replay '%s'" % case,
                                  'harness_cmd': 'ThreadSanitizer build of harness/c09_harness.cpp: %d %d' % (n, rounds)})

    for n, rounds in cfgs:
        rc, out, err = vf.sh([str(exe), str(n), str(rounds)], env=TSAN_ENV, timeout=600)
        res['runs'] += 1
        line = next((l for l in out.splitlines() if l.startswith('threads=')), '')
        m = re.match(r'threads=(\d+) rounds=(\d+) jobs=(\d+) accepted=(\d+) mismatches=(\d+) first=(.*)$', line)
        if rc != 0 or not m:
            violation('harness-crash', n, rounds, 'harness exit code %s: %s' % (rc, (err or out)[-300:]), line)
            continue
        res['jobs'] += int(m.group(3))
        res['accepted_jobs'] += int(m.group(4))
        mism = int(m.group(5))
        res['mismatches'] += mism
        nr, summ, where = _tsan(err)
        res['tsan_reports'] += nr
        res['configs'].append('threads=%d rounds=%d jobs=%s mismatches=%d tsan_races=%d' % (n, rounds, m.group(3), mism, nr))
        if mism:
            violation('result-differs-from-sequential', n, rounds,
                      '%d of %s jobs gave another result than the same job run alone; %s' % (mism, m.group(3), m.group(6)[:300]),
                      line)
        if nr:
            lab = 'race-tokenizer-buffer' if any('convChar2String' in s for s in summ + where) else 'race'
            violation(lab, n, rounds, 'ThreadSanitizer: %d data race report%s: %s%s' % (
                nr, '' if nr == 1 else 's', '; '.join(summ), (' on ' + ', '.join(where)) if where else ''), line)
    return res


CLAIM = {
    'text': 'Partial. Coq theorems (Properties_C09.v): for every number of threads, every thread code that respects '
            'the extracted inventory of objects with static storage duration (read-only use of const objects, no '
            'object on the handler set-up/evaluation path is mutable) and every schedule of a sequentially consistent '
            'interleaving semantics, each thread obtains exactly the results it obtains alone and no data race on an '
            'inventory object is reachable. The inventory is regenerated from the compiled sources on every run '
            '(symbol tables + declarations), the premise is discharged by computation, so a new mutable static on the '
            'path breaks the proof obligation. Sharing through the heap, library internals and weaker memory models is '
            'not visible to the scan; it is looked for only by the ThreadSanitizer run (2..16 threads, own handlers with '
            'different list separators, checks and constraints, results compared with the sequential run): search/tie, '
            'not proof.',
    'note': 'trusted: Coq kernel, the inventory translator (nm + declaration text + 2 allow-list entries), the '
            'abstraction "everything else is thread-owned", ThreadSanitizer; handlers of an argument group and '
            'concurrent usage output are outside the claim',
    'technique': 'Coq proof by induction over schedules (frame invariant) over an extracted shared-state inventory; '
                 'ThreadSanitizer stress harness compared with sequential results',
    'design_ref': 'DESIGN.md section 5, C09',
}
