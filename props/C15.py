"""C15  Rolling log files keep the most recent messages, complete and in order."""
import itertools
import sys

sys.path.insert(0, '/verif/lib')

ID = 'C15'
HARNESS = {
    'name': 'c15', 'sources': ['harness/c15_harness.cpp'], 'sanitize': True,
    'repo_sources': [
        'library/log/files/policy_base.cpp', 'library/log/files/counted.cpp', 'library/log/files/max_size.cpp',
        'library/log/filename/builder.cpp', 'library/log/filename/creator.cpp',
        'library/common/file_operations.cpp', 'library/common/detail/file_funcs_os.cpp',
        'library/log/detail/i_log_dest.cpp', 'library/log/filter/filters.cpp',
        'library/log/filter/detail/log_filter_classes.cpp', 'library/log/filter/detail/duplicate_policy_factory.cpp',
        'library/log/detail/log_msg.cpp', 'library/common/exception_base.cpp', 'library/common/extract_funcname.cpp',
        'library/log/detail/format_stream_default.cpp',
    ],
    'timeout': 1500,
}

RULE = ('a case is (policy Counted|MaxSize, limit, number of generations, history); the history starts the '
        'handler ("r") and continues with messages "w<text>" (message i is the i-th letter repeated 1..4 times) and '
        'restarts "r" (handler and policy destroyed and created again) anywhere; after every event all generation '
        'files of a private directory are dumped. Exhaustive: Counted limits 1..3, MaxSize limits 4..12 bytes, 1..3 '
        'generations, all histories of at most 4 (quick) / 5 (thorough) events over messages of length 1..4 and '
        'restarts; seeded random histories of 6..30 events. Non-trivial: at least one roll-over in the model.')
TRUSTED_BASE = [
    'model Log/RollModel.v written by hand from policy_base.cpp, counted.cpp, max_size.cpp, handler.hpp, '
    'file_funcs_os.cpp (rename argument order), filename/builder.cpp (generation number part only); what the open '
    'modes do to an existing file (out|trunc empties, out|app|ate keeps and positions at the end) is part of the '
    'model and validated against the real std::ofstream by the correspondence check of this run',
    'extraction: ExtrOcamlBasic only; nat stays an extracted datatype; ocaml/c15_driver.ml does I/O only',
    'C++ harness harness/c15_harness.cpp: real Counted/MaxSize through files::Handler with a text-only formatter, '
    'real files below /verif/.work/C15, g++ 12 -O1, ASan+UBSan',
]
ASSUMPTIONS = [
    'limit >= 1, generations >= 1; for MaxSize every message including its line terminator fits into an empty '
    'generation (longer messages are written into a generation of their own, which then exceeds the limit)',
    'message texts contain no newline; file name definition with a constant part and the generation number only '
    '(no date, pid or environment parts); nobody else touches the log directory; rename/unlink/open do not fail',
    'a restart is an orderly destruction of the handler (every message is flushed by std::endl when it is written)',
]


def _texts(lens):
    return ['w' + chr(ord('a') + (i % 26)) * l for i, l in enumerate(lens)]


def _case(kind, limit, gens, evs):
    """evs: list of 'r' or int (length of the message)"""
    out = []
    i = 0
    for e in evs:
        if e == 'r':
            out.append('r')
        else:
            out.append('w' + chr(ord('a') + (i % 26)) * e)
            i += 1
    return '%s %d %d %s' % (kind, limit, gens, ','.join(out))


CORPUS = [
    # pinned tree: restart truncates the current generation
    'C 2 3 r,wa,r,wbb',
    'M 8 2 r,wab,r,wc',
    # pinned tree: Counted never resets its counter
    'C 2 3 r,wa,wbb,wc,wd,we,wf,wg',
    'C 3 2 r,wa,wb,wc,wd,we,wf',
    # pinned tree: MaxSize does not count the newline
    'M 6 2 r,wab,wcd,we,wf',
    'M 4 3 r,wa,wb,wc,wd,we',
    # Counted: a restart starts a new generation although the current one has room (known finding)
    'C 3 3 r,wa,r,wb,r,wc,wd',
    'C 3 2 r,wa,r,wb,r,wc',
    # one generation only: rolling empties the file
    'C 2 1 r,wa,wb,wc,r,wd', 'M 6 1 r,wab,wcd,wef,r,wg',
    # message as long as the limit / longer (outside the stated domain, mirrored only)
    'M 4 2 r,wabc,wd,wefgh,wi', 'M 5 3 r,wabcd,wefgh,r,wi',
    # restart with an exactly full generation
    'M 6 2 r,wab,wcd,r,we', 'C 2 2 r,wa,wb,r,wc', 'C 1 3 r,wa,r,r,wb,wc,r,wd',
]


# ---------------------------------------------------------------------------
# the property on the dumps of one history (triage only)

def _parse_dump(tok):
    """-> list indexed by generation: None (no file) or (list of complete lines, trailing partial text)"""
    gens = []
    stray = False
    for part in tok.split(';'):
        if part.startswith('stray'):
            stray = True
            continue
        if part.endswith('!') and '=' not in part:
            gens.append(None)
            continue
        _, _, content = part.partition('=')
        pieces = content.split(',')
        gens.append((pieces[:-1], pieces[-1]))
    return gens, stray


def _lines(g):
    return [] if g is None else g[0]


def _bytes(g):
    return 0 if g is None else sum(len(x) + 1 for x in g[0]) + len(g[1])


def _check(case, ir):
    """None or (reason, label)"""
    if ir is None:
        return ('no result from the implementation', 'no-result')
    if 'CRASH' in ir:
        return ('memory error / abort in the implementation: ' + ir[-120:], 'crash')
    w = case.split(' ')
    kind, limit, G = w[0], int(w[1]), int(w[2])
    evs = [e for e in w[3].split(',') if e and e != '-']
    toks = ir.split(' ## ')[0].split(' ') if ir.split(' ## ')[0] else []
    if limit < 1 or G < 1:
        return None
    hist = []
    prev = None          # generations after the previous event
    started = False
    fits = True          # every message so far fits into an empty generation
    for i, e in enumerate(evs):
        if i >= len(toks):
            return ('no result for event %d (%s)' % (i, e), 'rolling')
        t = toks[i]
        if e[0] == 'w' and not started:
            return None if t.startswith('E:') else ('message written without a handler', 'rolling')
        if t.startswith('E:'):
            return ('event %d (%s) threw %s' % (i, e, t), 'exception')
        gens, stray = _parse_dump(t)
        if stray:
            return ('event %d (%s): unexpected file in the log directory' % (i, e), 'stray-file')
        if len(gens) > G and gens[G] is not None:
            return ('event %d (%s): more than %d generation files' % (i, e, G), 'too-many-generations')
        gens = gens[:G]
        for k, g in enumerate(gens):
            if g is not None and g[1] != '':
                return ('event %d (%s): generation %d ends inside a message: ...%s' % (i, e, k, g[1]), 'truncated-line')
        if gens[0] is None:
            return ('event %d (%s): no current generation file' % (i, e), 'rolling')
        text = e[1:] if e[0] == 'w' else None
        if text is not None:
            hist.append(text)
            if kind == 'M' and len(text) + 1 > limit:
                fits = False
        if prev is None:
            pgens = [None] * G
        else:
            pgens = prev
        p0 = _lines(pgens[0])
        c0 = _lines(gens[0])
        rolled = c0[:len(p0)] != p0 or [_lines(g) for g in gens[1:]] != [_lines(g) for g in pgens[1:]] \
            or [g is None for g in gens[1:]] != [g is None for g in pgens[1:]]
        # (1) exactly the most recent messages, whole and in order: nothing is lost except the oldest
        #     generation when a new one is started
        keep = pgens[:G - 1] if rolled else pgens
        expect = [x for g in reversed(keep) for x in _lines(g)] + ([text] if text is not None else [])
        got = [x for g in reversed(gens) for x in _lines(g)]
        if got != expect:
            lab = 'rolling'
            if e[0] == 'r' and [_lines(g) for g in gens[1:]] == [_lines(g) for g in pgens[1:]] and c0 == [] and p0:
                lab = 'restart-truncates' if G > 1 else 'restart-empties-single-generation'
                if G == 1 and kind == 'C':
                    lab = 'restart-starts-new-generation'
                if G == 1 and kind == 'M' and _bytes(pgens[0]) >= limit:
                    lab = None      # a full single generation is legitimately started anew
            if lab is not None:
                return ('event %d (%s): the generations hold %s, the most recent messages are %s '
                        '(all written: %s)' % (i, e, got, expect, hist), lab)
        n = len(got)
        if hist[len(hist) - n:] != got and n:
            return ('event %d (%s): the generations, oldest to newest, are not a suffix of the messages written'
                    % (i, e), 'rolling')
        # (2) no generation exceeds its limit
        if fits:
            for k, g in enumerate(gens):
                size = len(_lines(g)) if kind == 'C' else _bytes(g)
                if size > limit:
                    return ('event %d (%s): generation %d holds %d %s, limit %d'
                            % (i, e, k, size, 'entries' if kind == 'C' else 'bytes', limit),
                            'maxsize-newline-not-counted' if kind == 'M' else 'limit-exceeded')
        # (3) a new generation only when the next message would exceed the limit
        if rolled and prev is not None:
            used = len(p0) if kind == 'C' else _bytes(pgens[0])
            if text is not None:
                need = used + (1 if kind == 'C' else len(text) + 1) > limit
                if not need:
                    return ('event %d (%s): new generation started although the message fits (%d of %d used)'
                            % (i, e, used, limit),
                            'counted-counter-not-reset' if kind == 'C' else 'rolled-too-early')
            else:
                need = used >= limit
                if not need:
                    return ('restart (event %d): new generation started although the current one has room '
                            '(%d of %d used)' % (i, used, limit), 'restart-starts-new-generation')
        started = True
        prev = gens
    if len(toks) > len(evs):
        return ('more results than events', 'rolling')
    return None


def spec_check(case, ir, mr):
    r = _check(case, ir)
    return r[0] if r else None


def classify(case, ir, mr):
    r = _check(case, ir)
    return r[1] if r else 'none'


# ---------------------------------------------------------------------------

def gen_cases(tier, rng):
    cases = list(CORPUS)
    depth = 4 if tier == 'quick' else 5
    configs = [('C', l, g) for l in (1, 2, 3) for g in (1, 2, 3)] + \
              [('M', l, g) for l in range(4, 13) for g in (1, 2, 3)]
    alphabet = [1, 2, 3, 4, 'r']
    for (k, l, g) in configs:
        for n in range(0, depth + 1):
            for evs in itertools.product(alphabet, repeat=n):
                cases.append(_case(k, l, g, ['r'] + list(evs)))
    nrand = 300 if tier == 'quick' else 3000
    for _ in range(nrand):
        k = rng.choice('CM')
        l = rng.range(1, 5) if k == 'C' else rng.range(4, 20)
        g = rng.range(1, 4)
        evs = ['r']
        for _ in range(rng.range(6, 30)):
            evs.append('r' if rng.chance(1, 6) else rng.range(1, 4))
        cases.append(_case(k, l, g, evs))
    return {'cases': cases, 'exhaustive': True,
            'scopes': ['exhaustive: Counted limits 1..3, MaxSize limits 4..12, generations 1..3, every history of '
                       '<= %d events over messages of length 1..4 and restarts (after the initial start)' % depth,
                       'random: %d histories of 6..30 events, Counted limits 1..5, MaxSize limits 4..20, '
                       'generations 1..4' % nrand]}


def histogram_keys(case, mr):
    w = case.split(' ')
    keys = ['%s gens=%s' % (w[0], w[2])]
    evs = w[3].split(',')
    if evs.count('r') > 1:
        keys.append('with-restart')
    return keys


def nontrivial(case, mr):
    prop = mr.split(' ## ')[0]
    return '1=' in prop or (case.split(' ')[2] == '1' and len(prop.split(' ')) > 3)


def shrink(case):
    w = case.split(' ')
    evs = w[3].split(',')
    for i in range(1, len(evs)):
        rest = evs[:i] + evs[i + 1:]
        yield ' '.join(w[:3] + [','.join(rest)])
    if int(w[2]) > 1:
        yield ' '.join([w[0], w[1], str(int(w[2]) - 1), w[3]])


CLAIM = {
    'text': 'Coq theorems (Properties_C15.v) over an executable model of PolicyBase/Counted/MaxSize on a modelled file '
            'system, for every limit >= 1, every number of generations >= 1 and every history of messages and '
            'restarts (induction over events, invariant: generation k holds exactly the messages written between '
            'two consecutive starts of a new generation): no operation throws; the generations read oldest to newest '
            'are the encoding of a suffix of the messages written, nothing is lost before the oldest slot is in use, '
            'the message just written is retained; every file consists of whole messages; no generation exceeds its '
            'limit (entries, resp. bytes including line terminators, for messages that fit an empty generation); a '
            'message starts a new generation only when it would exceed the limit; a restart of a size-limited log '
            'only when the file is full. The model is tied to the code by running the real policies through '
            'files::Handler on real files, exhaustively for small scopes, dumping all files after every event.',
    'note': 'partial: for count-limited logs a restart with a non-empty current file starts a new generation although '
            'entries fit (known finding restart-starts-new-generation, C15_counted_restart_refuted; the retention '
            'bound C15_roll_retains_partial is therefore proved for histories without restarts). Three defects of the '
            'pinned tree repaired by fixes/C15-1..3. Trusted: Coq kernel, extraction, the hand-written model incl. the '
            'semantics of the open modes and of rename (validated by correspondence on every run), no I/O errors, '
            'orderly shutdown (no crash in the middle of a write).',
    'technique': 'Coq proof by induction over event histories with a ghost segmentation of the history; closed form of '
                 'the rename loop; model/implementation correspondence against a real directory, exhaustive histories '
                 'of <= 4 (quick) / 5 (thorough) events for 36 configurations',
    'design_ref': 'DESIGN.md section 5, C15',
}
