"""Common machinery of the Celma verification framework.

One check run  (./check <ID> --tier quick|thorough):
  1. translate   regenerate *Gen.v from /repo/src (properties with a translator)
  2. prove       make Properties_<ID>.vo (full .vo build), then re-run coqc on the
                 property file to read the Print Assumptions output
  3. extract     make Extract_<ID>.vo -> ocaml/gen/<id>_model.ml, build the driver
  4. build       compile the C++ harness against /repo's working tree
  5. generate    cases (seeded / exhaustive small scopes), corpus first
  6. run         harness and extracted model on the same case file, diff
  7. decide      proofs + tie + spec oracle -> exit code, replay, evidence
"""
import fcntl
import hashlib
import importlib.util
import json
import os
import re
import shutil
import subprocess
import sys
import time
from concurrent.futures import ThreadPoolExecutor
from pathlib import Path

VERIF = Path('/verif')
REPO = Path(os.environ.get('VERIF_REPO', '/repo'))
COQ = VERIF / 'coq'
OCAML = VERIF / 'ocaml'
WORK = VERIF / '.work'
CACHE = VERIF / '.cache'
NPROC = os.cpu_count() or 8

SAN_FLAGS = ['-fsanitize=address,undefined', '-fno-sanitize=vptr',
             '-fno-sanitize-recover=all', '-fno-omit-frame-pointer']
BASE_FLAGS = ['-std=c++17', '-O1', '-g', '-DCELMA_VERIF', '-w']
SAN_ENV = {'ASAN_OPTIONS': 'detect_leaks=0:abort_on_error=0:exitcode=99:allocator_may_return_null=1',
           'UBSAN_OPTIONS': 'print_stacktrace=0:halt_on_error=1:exitcode=98',
           'TZ': 'UTC', 'LC_ALL': 'C'}

# axioms of the Coq standard library that a theorem may depend on (named in the
# trusted base when they occur); anything else is a failed obligation
STDLIB_AXIOMS = {
    'functional_extensionality_dep', 'FunctionalExtensionality.functional_extensionality_dep',
    'proof_irrelevance', 'ProofIrrelevance.proof_irrelevance', 'classic', 'Classical_Prop.classic',
    'JMeq_eq', 'JMeq.JMeq_eq', 'Eqdep.Eq_rect_eq.eq_rect_eq', 'eq_rect_eq',
    'propositional_extensionality', 'PropExtensionality.propositional_extensionality',
}


def log(msg):
    print(msg, flush=True)


class Lock:
    """process-wide lock for the shared Coq / OCaml build directories"""

    def __init__(self, name='build'):
        self.path = VERIF / f'.lock.{name}'

    def __enter__(self):
        self.f = open(self.path, 'w')
        fcntl.flock(self.f, fcntl.LOCK_EX)
        return self

    def __exit__(self, *a):
        fcntl.flock(self.f, fcntl.LOCK_UN)
        self.f.close()


def sh(cmd, cwd=None, timeout=None, env=None, stdin=None):
    e = dict(os.environ)
    if env:
        e.update(env)
    try:
        p = subprocess.run(cmd, cwd=cwd, timeout=timeout, env=e, input=stdin,
                           stdout=subprocess.PIPE, stderr=subprocess.PIPE, text=True,
                           errors='replace')
        return p.returncode, p.stdout, p.stderr
    except subprocess.TimeoutExpired as ex:
        return 124, (ex.stdout or b'').decode(errors='replace') if isinstance(ex.stdout, bytes) else (ex.stdout or ''), 'TIMEOUT'


# --------------------------------------------------------------------------
# Coq

def coq_prepare():
    """(re)generate _CoqProject and the coq_makefile Makefile when the set of .v files changed"""
    files = sorted(str(p.relative_to(COQ)) for p in COQ.rglob('*.v'))
    text = '-Q . Celma\n' + '\n'.join(files) + '\n'
    proj = COQ / '_CoqProject'
    if not proj.exists() or proj.read_text() != text or not (COQ / 'Makefile').exists():
        proj.write_text(text)
        rc, out, err = sh(['coq_makefile', '-f', '_CoqProject', '-o', 'Makefile'], cwd=COQ, timeout=120)
        if rc != 0:
            raise RuntimeError('coq_makefile failed: ' + err)
    (OCAML / 'gen').mkdir(parents=True, exist_ok=True)
    (OCAML / 'bin').mkdir(parents=True, exist_ok=True)


def coq_make(targets, timeout=1500):
    """full .vo build of the given targets (never -vos). returns (ok, log)"""
    with Lock():
        coq_prepare()
        rc, out, err = sh(['make', '-k', f'-j{NPROC}'] + list(targets), cwd=COQ, timeout=timeout)
    return rc == 0, out + err


def write_if_changed(path, text):
    path = Path(path)
    if path.exists() and path.read_text() == text:
        return False
    path.parent.mkdir(parents=True, exist_ok=True)
    path.write_text(text)
    return True


def prove(pid, timeout=1500):
    """Build Properties_<pid>.vo and read back which theorems were accepted and what
    they assume.  Returns a dict:
      ok, theorems [names], discharged [names], axioms {thm: [axioms]}, bad_axioms, log, failed_file"""
    pf = COQ / f'Properties_{pid}.v'
    src = pf.read_text()
    theorems = re.findall(r'^\s*(?:Theorem|Corollary)\s+([A-Za-z0-9_\']+)', src, re.M)
    res = {'ok': False, 'theorems': theorems, 'discharged': [], 'axioms': {}, 'bad_axioms': [],
           'log': '', 'failed_file': None, 'error': None}
    ok, mlog = coq_make([f'Properties_{pid}.vo'], timeout)
    res['log'] = mlog[-6000:]
    if not ok:
        m = re.search(r'File "\./([^"]+)", line (\d+)[^\n]*\n(Error:[\s\S]*?)(?:\n\n|\nmake)', mlog)
        if m:
            res['failed_file'] = m.group(1)
            res['error'] = f'{m.group(1)}:{m.group(2)}: ' + ' '.join(m.group(3).split())[:600]
        else:
            res['error'] = 'make failed: ' + ' '.join(mlog.split())[-600:]
    # read the assumptions: re-run coqc on the (small) property file itself
    with Lock():
        (WORK / f'props_{pid}').mkdir(parents=True, exist_ok=True)
        rc, out, err = sh(['coqc', '-Q', '.', 'Celma', '-o', str(WORK / f'props_{pid}' / f'Properties_{pid}.vo'), str(pf)],
                          cwd=COQ, timeout=600)
    text = out + err
    blocks = re.split(r'(?=^Closed under the global context|^Axioms:)', text, flags=re.M)
    blocks = [b for b in blocks if b.startswith('Closed under') or b.startswith('Axioms:')]
    printed = re.findall(r'^\s*Print Assumptions\s+([A-Za-z0-9_\']+)', src, re.M)
    for name, blk in zip(printed, blocks):
        if blk.startswith('Closed under'):
            res['axioms'][name] = []
        else:
            ax = re.findall(r'^([A-Za-z0-9_\.\']+)\s*:', blk[len('Axioms:'):], re.M)
            res['axioms'][name] = ax
            for a in ax:
                if a not in STDLIB_AXIOMS and a.split('.')[-1] not in STDLIB_AXIOMS:
                    res['bad_axioms'].append((name, a))
        res['discharged'].append(name)
    missing = [t for t in theorems if t not in printed]
    if missing:
        res['error'] = (res['error'] or '') + f' theorems without Print Assumptions: {missing}'
    if rc != 0 and not res['error']:
        res['error'] = 'coqc Properties: ' + ' '.join(text.split())[-600:]
    res['ok'] = ok and rc == 0 and not res['bad_axioms'] and not missing and \
        set(theorems) <= set(res['discharged'])
    return res


def coq_closure(pid, mid=None):
    """the .v files Properties_<pid>.v and Extract_<mid>.v depend on (inside the development)"""
    todo = [COQ / f'Properties_{pid}.v', COQ / f'Extract_{mid or pid}.v']
    seen = []
    while todo:
        f = todo.pop()
        if f in seen or not f.exists():
            continue
        seen.append(f)
        txt = re.sub(r'\(\*[\s\S]*?\*\)', '', f.read_text())
        for stmt in re.findall(r'(?:Require|From\s+Celma\S*\s+Require)[^.]*?(?:Import|Export)?\s+([^\n]*?)\.\s', txt):
            pass
        for m in re.finditer(r'Celma((?:\.[A-Za-z0-9_]+)+)', txt):
            parts = m.group(1).strip('.').split('.')
            cand = COQ.joinpath(*parts).with_suffix('.v')
            if cand.exists():
                todo.append(cand)
    return seen


def forbidden_scan(pid=None, mid=None):
    """no Admitted/admit/Axiom/Parameter/... in the files the property depends on
    (pid None: anywhere in the development)"""
    bad = []
    pat = re.compile(r'\b(Admitted|admit|Axiom|Axioms|Parameter|Parameters|Conjecture|Admit Obligations|'
                     r'bypass_check|Unset Guard Checking|Unset Positivity Checking|Unset Universe Checking|'
                     r'type-in-type|impredicative-set)\b')
    files = coq_closure(pid, mid) if pid else list(COQ.rglob('*.v'))
    for p in files:
        txt = re.sub(r'\(\*[\s\S]*?\*\)', '', p.read_text())
        for i, line in enumerate(txt.splitlines(), 1):
            if pat.search(line):
                bad.append(f'{p.relative_to(COQ)}:{i}: {line.strip()[:80]}')
    return bad


def build_driver(pid, timeout=900):
    """extraction + ocamlopt; returns path of the driver executable or raises"""
    low = pid.lower()
    gen_ml = OCAML / 'gen' / f'{low}_model.ml'
    ext_vo = COQ / f'Extract_{pid}.vo'
    if not gen_ml.exists() and ext_vo.exists():
        ext_vo.unlink()
    ok, mlog = coq_make([f'Extract_{pid}.vo'], timeout)
    if not ok or not gen_ml.exists():
        raise RuntimeError('extraction failed: ' + mlog[-1500:])
    exe = OCAML / 'bin' / f'{low}_driver'
    drv = OCAML / f'{low}_driver.ml'
    key = hashlib.sha256(gen_ml.read_bytes() + drv.read_bytes()).hexdigest()
    stamp = OCAML / 'bin' / f'{low}_driver.key'
    if exe.exists() and stamp.exists() and stamp.read_text() == key:
        return exe
    with Lock('ocaml'):
        bdir = WORK / f'ocaml_{low}'
        shutil.rmtree(bdir, ignore_errors=True)
        bdir.mkdir(parents=True)
        for f in (gen_ml, gen_ml.with_suffix('.mli'), drv):
            shutil.copy(f, bdir)
        rc, out, err = sh(['ocamlfind', 'ocamlopt', '-O2', '-w', '-a', f'{low}_model.mli', f'{low}_model.ml',
                           f'{low}_driver.ml', '-o', str(exe)], cwd=bdir, timeout=timeout)
        if rc != 0:
            rc, out, err = sh(['ocamlfind', 'ocamlopt', '-w', '-a', f'{low}_model.mli', f'{low}_model.ml',
                               f'{low}_driver.ml', '-o', str(exe)], cwd=bdir, timeout=timeout)
        shutil.rmtree(bdir, ignore_errors=True)
        if rc != 0:
            raise RuntimeError('ocamlopt failed: ' + (out + err)[-1500:])
        stamp.write_text(key)
    return exe


# --------------------------------------------------------------------------
# C++ harness build with a dependency-aware object cache

_hash_cache = {}


def file_hash(p):
    p = str(p)
    if p not in _hash_cache:
        try:
            _hash_cache[p] = hashlib.sha256(Path(p).read_bytes()).hexdigest()
        except OSError:
            _hash_cache[p] = 'missing'
    return _hash_cache[p]


def _parse_depfile(path):
    try:
        txt = Path(path).read_text().replace('\\\n', ' ')
    except OSError:
        return []
    parts = txt.split(':', 1)
    if len(parts) < 2:
        return []
    return [d for d in parts[1].split() if not d.startswith('/usr/')]


def compile_object(src, flags, incs, compiler='g++'):
    """compile one translation unit, cached by the content of everything it includes"""
    src = Path(src)
    cdir = CACHE / 'obj'
    cdir.mkdir(parents=True, exist_ok=True)
    tag = hashlib.sha256(('|'.join([compiler, str(src)] + flags + incs)).encode()).hexdigest()[:24]
    obj = cdir / f'{tag}.o'
    meta = cdir / f'{tag}.json'
    if obj.exists() and meta.exists():
        try:
            deps = json.loads(meta.read_text())
            if all(file_hash(d) == h for d, h in deps.items()):
                return obj, None
        except (ValueError, OSError):
            pass
    # several checks share translation units (the argument-handler harness and library): compile into files of this
    # process and move them into place, so that a check running at the same time never links a half-written object
    dfile = cdir / f'{tag}.{os.getpid()}.d'
    tmpobj = cdir / f'{tag}.{os.getpid()}.tmp.o'
    cmd = [compiler] + flags + [f'-I{i}' for i in incs] + ['-MMD', '-MF', str(dfile), '-MT', str(obj), '-c', str(src), '-o', str(tmpobj)]
    rc, out, err = sh(cmd, timeout=900)
    if rc != 0:
        for f in (dfile, tmpobj):
            try:
                f.unlink()
            except OSError:
                pass
        return None, f'{src}: ' + (out + err)[-3000:]
    deps = {d: file_hash(d) for d in _parse_depfile(dfile)}
    deps[str(src)] = file_hash(src)
    tmpmeta = cdir / f'{tag}.{os.getpid()}.json.tmp'
    tmpmeta.write_text(json.dumps(deps))
    os.replace(tmpobj, obj)
    os.replace(tmpmeta, meta)
    try:
        dfile.unlink()
    except OSError:
        pass
    return obj, None


def build_harness(name, sources, repo_sources=(), sanitize=True, extra_flags=(), compiler='g++',
                  libs=('-lpthread',), incs=()):
    """sources: paths under /verif; repo_sources: paths relative to REPO/src.
    returns (exe, None) or (None, error text)"""
    _hash_cache.clear()
    flags = list(BASE_FLAGS) + (list(SAN_FLAGS) if sanitize else []) + list(extra_flags)
    inc = [str(VERIF / 'harness' / 'common'), str(REPO / 'src')] + [str(i) for i in incs]
    all_src = [VERIF / s for s in sources] + [REPO / 'src' / s for s in repo_sources]
    with ThreadPoolExecutor(max_workers=NPROC) as ex:
        results = list(ex.map(lambda s: compile_object(s, flags, inc, compiler), all_src))
    errs = [e for (_, e) in results if e]
    if errs:
        return None, '\n'.join(errs)
    objs = [str(o) for (o, _) in results]
    key = hashlib.sha256('|'.join(objs + [file_hash(o) for o in objs] + flags).encode()).hexdigest()[:24]
    exe = CACHE / 'exe' / f'{name}_{key}'
    exe.parent.mkdir(parents=True, exist_ok=True)
    if not exe.exists():
        tmp = exe.with_name(exe.name + f'.tmp{os.getpid()}')
        rc, out, err = sh([compiler] + flags + objs + ['-o', str(tmp)] + list(libs), timeout=600)
        if rc != 0:
            return None, 'link: ' + (out + err)[-3000:]
        os.replace(tmp, exe)          # atomic: a concurrent run never sees a half-written executable
        # keep the cache small: remove executables of the same harness that have not been used for two hours
        # (another run, e.g. against another tree, may still be executing a recent one)
        now = time.time()
        for old in exe.parent.glob(f'{name}_*'):
            try:
                if old != exe and now - old.stat().st_atime > 7200 and now - old.stat().st_mtime > 7200:
                    old.unlink()
            except OSError:
                pass
    return exe, None


# AddressSanitizer's allocator ends the process where the plain run-time throws std::bad_alloc / std::length_error
# ("requested allocation size ... exceeds maximum supported size", "allocator is out of memory", "out of memory"):
# a limit of the instrumented run, not a memory error of the code under test
ASAN_RESOURCE = re.compile(r'ERROR: AddressSanitizer: (requested allocation size|allocator is out of memory|out of memory'
                           r'|allocation-size-too-big)')


def sanitizer_kind(stderr):
    if ASAN_RESOURCE.search(stderr):
        return 'resource:asan-allocator'
    m = re.search(r'ERROR: AddressSanitizer: ([a-zA-Z\-]+)', stderr)
    if m:
        return 'asan:' + m.group(1)
    m = re.search(r'runtime error: ([^\n]{0,80})', stderr)
    if m:
        return 'ubsan:' + re.sub(r'0x[0-9a-f]+', 'ADDR', m.group(1)).replace(' ', '_')[:60]
    if 'ThreadSanitizer' in stderr:
        m = re.search(r'WARNING: ThreadSanitizer: ([a-z ]+)', stderr)
        return 'tsan:' + (m.group(1).strip().replace(' ', '_') if m else 'report')
    return None


def run_cases(exe, casefile, env=None, timeout=1800, max_restarts=200, extra_args=()):
    """run a harness / driver over a case file. A case on which the process dies is
    reported as CRASH:<kind> and the run continues with the next case."""
    ids = [l.split(' ', 1)[0] for l in Path(casefile).read_text().splitlines() if l.strip()]
    results = {}
    start = None
    restarts = 0
    e = dict(SAN_ENV)
    if env:
        e.update(env)
    t_end = time.time() + timeout
    while True:
        cmd = [str(exe), str(casefile)] + ([start] if start else []) + list(extra_args)
        rc, out, err = sh(cmd, env=e, timeout=max(5, t_end - time.time()))
        for line in out.splitlines():
            if ' ' in line:
                i, r = line.split(' ', 1)
                results[i] = r
            elif line:
                results[line] = ''
        if rc == 0:
            # the code under test may have called exit() in the middle of a case: that case has no result line
            running = re.findall(r'^@case (\S+)', err, re.M)
            if running and running[-1] not in results and running[-1] in ids:
                cur = running[-1]
                results[cur] = 'CRASH:exit0'
                restarts += 1
                i = ids.index(cur)
                if i + 1 < len(ids) and restarts <= max_restarts:
                    start = ids[i + 1]
                    continue
            break
        if rc == 124:
            running = re.findall(r'^@case (\S+)', err, re.M)
            if running and running[-1] not in results:
                results[running[-1]] = 'CRASH:timeout'
            break
        running = re.findall(r'^@case (\S+)', err, re.M)
        if not running:
            results['__harness__'] = 'CRASH:' + (sanitizer_kind(err) or f'exit{rc}') + ' ' + err[-300:]
            break
        cur = running[-1]
        died = 'timeout' if rc == -14 else f'exit{rc}'      # -14: SIGALRM of the per-case watchdog
        if cur in results:   # died after printing the result (e.g. at exit)
            kind = sanitizer_kind(err) or died
            results[cur] = results[cur] + ' CRASH-AFTER:' + kind
        else:
            kind = sanitizer_kind(err) or died
            # RESOURCE: the instrumented allocator refused a huge request - no verdict on this case
            results[cur] = ('RESOURCE:' + kind) if kind.startswith('resource:') else ('CRASH:' + kind)
        restarts += 1
        try:
            nxt = ids[ids.index(cur) + 1]
        except (ValueError, IndexError):
            break
        if restarts > max_restarts:
            results['__harness__'] = 'CRASH:too-many-restarts'
            break
        start = nxt
    return results


# --------------------------------------------------------------------------
# known findings, replays, evidence

def load_known():
    """known_findings.json (committed list) plus per-property files known_findings.d/<ID>.json"""
    out = []
    p = VERIF / 'known_findings.json'
    if p.exists():
        out += json.loads(p.read_text())
    d = VERIF / 'known_findings.d'
    if d.exists():
        for f in sorted(d.glob('*.json')):
            out += json.loads(f.read_text())
    return out


def write_replay(pid, n, data):
    d = VERIF / 'replays' / pid
    d.mkdir(parents=True, exist_ok=True)
    p = d / f'{n}.json'
    p.write_text(json.dumps(data, indent=1))
    return p


def write_evidence(pid, ev):
    # evidence/ only ever describes runs against /repo itself; runs against another tree (seeded changes,
    # scratch worktrees) write their record next to the work files
    d = VERIF / 'evidence' if str(REPO) == '/repo' else WORK / 'evidence_other_tree'
    d.mkdir(parents=True, exist_ok=True)
    d.mkdir(exist_ok=True)
    (d / f'{pid}.json').write_text(json.dumps(ev, indent=1) + '\n')


def load_plugin(pid):
    path = VERIF / 'props' / f'{pid}.py'
    spec = importlib.util.spec_from_file_location(f'prop_{pid}', path)
    mod = importlib.util.module_from_spec(spec)
    sys.modules[f'prop_{pid}'] = mod
    spec.loader.exec_module(mod)
    return mod


class Rng:
    """small deterministic PRNG (xorshift64*), every random choice of a run derives from it"""

    def __init__(self, seed):
        self.s = (seed * 0x9E3779B97F4A7C15 + 0x1234567) & 0xFFFFFFFFFFFFFFFF or 1

    def next(self):
        x = self.s
        x ^= (x >> 12)
        x ^= (x << 25) & 0xFFFFFFFFFFFFFFFF
        x ^= (x >> 27)
        self.s = x
        return (x * 0x2545F4914F6CDD1D) & 0xFFFFFFFFFFFFFFFF

    def below(self, n):
        return self.next() % n if n > 0 else 0

    def range(self, a, b):
        return a + self.below(b - a + 1)

    def choice(self, l):
        return l[self.below(len(l))]

    def chance(self, num, den):
        return self.below(den) < num

    def shuffle(self, l):
        for i in range(len(l) - 1, 0, -1):
            j = self.below(i + 1)
            l[i], l[j] = l[j], l[i]
        return l


def split_result(r):
    """'<property observables> ## <internal observables>'"""
    if r is None:
        return None, None
    if ' ## ' in r:
        a, b = r.split(' ## ', 1)
        return a.strip(), b.strip()
    if r.endswith(' ##'):
        return r[:-3].strip(), ''
    return r.strip(), ''


# --------------------------------------------------------------------------
# the generic check

def run_check(P, tier, seed, replay=None):
    """P: plugin module. Returns exit code.  Two runs of the same property never overlap (they share the work
    directory, the replays and the evidence file)."""
    with Lock('run.' + P.ID):
        return _run_check(P, tier, seed, replay)


def _clean_stale_scratch():
    """per-process scratch directories of harness processes that no longer exist (left behind by a crash)"""
    d = WORK / 'args_home'
    if d.exists():
        for q in d.glob('p[0-9]*'):
            if not Path('/proc/' + q.name[1:]).exists():
                shutil.rmtree(q, ignore_errors=True)


def _run_check(P, tier, seed, replay=None):
    t0 = time.time()
    pid = P.ID
    _clean_stale_scratch()
    work = WORK / pid
    shutil.rmtree(work, ignore_errors=True)
    work.mkdir(parents=True, exist_ok=True)
    shutil.rmtree(VERIF / 'replays' / pid, ignore_errors=True)
    violations = []       # (kind, label, text, replay-data)
    known_hits = {}
    notes = []
    known = [k for k in load_known() if k.get('property') == pid]
    known_open = {k['id']: k for k in known if k.get('status') == 'known'}

    # 1. translate
    tie_broken = None
    if hasattr(P, 'translate'):
        try:
            info = P.translate(REPO, COQ)
            if info:
                notes.append('translator: ' + str(info))
        except Exception as ex:   # noqa
            tie_broken = f'translator failed: {ex}'
            log(f'[{pid}] translator failed: {ex}')

    # 2. prove
    mid = getattr(P, 'MODEL_ID', pid)
    bad = forbidden_scan(pid, mid)
    pr = prove(pid, timeout=getattr(P, 'PROVE_TIMEOUT', 1500))
    if bad:
        pr['ok'] = False
        pr['error'] = (pr['error'] or '') + ' forbidden constructs: ' + '; '.join(bad[:5])
    log(f'[{pid}] proof: {len(pr["discharged"])}/{len(pr["theorems"])} theorems accepted'
        + ('' if pr['ok'] else f'  BROKEN: {pr["error"]}'))
    coqchk_out = None
    if tier == 'thorough' and pr['ok'] and getattr(P, 'COQCHK', True):
        with Lock():
            rc, out, err = sh(['coqchk', '-silent', '-o', '-Q', '.', 'Celma', f'Celma.Properties_{pid}'],
                              cwd=COQ, timeout=1800)
        coqchk_out = (out + err)[-1500:]
        if rc != 0:
            pr['ok'] = False
            pr['error'] = 'coqchk failed: ' + coqchk_out[-400:]
        notes.append('coqchk: ' + ('ok' if rc == 0 else 'FAILED'))

    # 3..6 correspondence
    corr = {'evaluations': 0, 'distinct_nontrivial': 0, 'agree': 0, 'disagree': 0, 'drift': 0,
            'samples': [], 'histogram': {}, 'exhaustive': False, 'scopes': []}
    disagreements = []
    harness_error = None
    cases = []
    impl = {}
    model = {}
    if getattr(P, 'HARNESS', None) is not None:
        try:
            drv = build_driver(mid) if getattr(P, 'DRIVER', True) else None
        except Exception as ex:   # noqa
            drv = None
            tie_broken = (tie_broken or '') + f' model driver: {ex}'
            log(f'[{pid}] model driver build failed: {str(ex)[-800:]}')
        H = P.HARNESS
        exe, herr = build_harness(H['name'], H['sources'], H.get('repo_sources', ()),
                                  sanitize=H.get('sanitize', True), extra_flags=H.get('flags', ()),
                                  compiler=H.get('compiler', 'g++'), libs=H.get('libs', ('-lpthread',)))
        if exe is None:
            harness_error = herr
            log(f'[{pid}] harness build failed:\n{herr[-2000:]}')
        rng = Rng(seed)
        gen = P.gen_cases(tier, rng) if replay is None else {'cases': [replay], 'scopes': ['replay']}
        raw = gen['cases']
        if replay is None:
            # the corpus runs first: the failing cases of earlier findings and of the seeded changes
            # (corpus/<ID>.txt, written by tools/build_corpus.py), so that a change of a generator cannot lose them
            cf = VERIF / 'corpus' / f'{pid}.txt'
            if cf.exists():
                corpus = [l.strip() for l in cf.read_text().splitlines() if l.strip() and not l.startswith('#')]
                raw = corpus + list(raw)
                gen.setdefault('scopes', []).append('corpus: %d stored failing cases (corpus/%s.txt) run first' % (len(corpus), pid))
        corr['scopes'] = gen.get('scopes', [])
        corr['exhaustive'] = bool(gen.get('exhaustive', False))
        seen = set()
        for c in raw:
            if c in seen:
                continue
            seen.add(c)
            cases.append(c)
        casefile = work / 'cases.txt'
        casefile.write_text(''.join(f'c{i} {c}\n' for i, c in enumerate(cases)))
        corr['evaluations'] = len(cases)
        if exe is not None:
            impl = run_cases(exe, casefile, env=H.get('env'), timeout=H.get('timeout', 1800))
        if drv is not None:
            model = run_cases(drv, casefile, timeout=1800)
        nontriv = set()
        for i, c in enumerate(cases):
            cid = f'c{i}'
            ir, mr = impl.get(cid), model.get(cid)
            ip, ii = split_result(ir)
            mp, mi = split_result(mr)
            for k in P.histogram_keys(c, mr) if hasattr(P, 'histogram_keys') else []:
                corr['histogram'][k] = corr['histogram'].get(k, 0) + 1
            if mr is not None and P.nontrivial(c, mr):
                nontriv.add(c)
            if exe is None or drv is None:
                continue
            if (ir or '').startswith('RESOURCE:'):
                corr['resource_limit'] = corr.get('resource_limit', 0) + 1
                continue
            if ip == mp:
                corr['agree'] += 1
                # internal observables are compared only where the driver prints comparable ones (the plug-in says so)
                if ii != mi and getattr(P, 'INTERNAL_COMPARABLE', True):
                    corr['drift'] += 1
            elif (mp or '').startswith('unsupported'):
                # a case outside the domain of the model: judged by the spec oracle (and the sanitizers) only
                corr['outside_model'] = corr.get('outside_model', 0) + 1
            else:
                corr['disagree'] += 1
                disagreements.append((cid, c, ir, mr))
        corr['distinct_nontrivial'] = len(nontriv)
        step = max(1, len(cases) // 5)
        corr['samples'] = [{'case': cases[i], 'impl': impl.get(f'c{i}'), 'model': model.get(f'c{i}')}
                           for i in range(0, len(cases), step)][:6]
        if '__harness__' in impl:
            harness_error = (harness_error or '') + ' ' + impl['__harness__']
        log(f'[{pid}] correspondence: {corr["evaluations"]} cases, {corr["agree"]} agree, '
            f'{corr["disagree"]} disagree, {corr["drift"]} internal drift, '
            f'{corr["distinct_nontrivial"]} distinct non-trivial')

    # extra, property-specific stage (stress runs, inventory scans ...)
    extra = {}
    if hasattr(P, 'extra_stage'):
        try:
            extra = P.extra_stage(tier, seed, work) or {}
        except Exception as ex:   # noqa
            extra = {'violations': [{'label': 'extra-stage-error', 'text': str(ex)[-500:], 'found_input': False}]}
        if corr['evaluations'] == 0 and extra.get('runs'):
            # properties without an extracted model: the stress / forced-schedule runs are what was explored
            corr['evaluations'] = int(extra['runs'])
            cfgs = list(dict.fromkeys(extra.get('configs', [])))
            corr['distinct_nontrivial'] = len(cfgs)
            corr['samples'] = [{'run': x} for x in cfgs[:5]]
        for v in extra.get('violations', []):
            lab = v.get('label', 'extra')
            if lab in known_open:
                known_hits.setdefault(lab, v)
            else:
                violations.append(('extra', lab, v.get('text', ''), v))

    # 7. decide
    # (a) spec oracle on every implementation result that differs from the model
    failing = []
    nofail = []
    for (cid, c, ir, mr) in disagreements:
        reason = P.spec_check(c, ir, mr)
        if reason:
            lab = P.classify(c, ir, mr) if hasattr(P, 'classify') else 'unclassified'
            failing.append((cid, c, ir, mr, reason, lab))
        else:
            nofail.append((cid, c, ir, mr))
    # the spec oracle also runs over the agreeing cases (a defect mirrored by the model is still a defect)
    if getattr(P, 'HARNESS', None) is not None and getattr(P, 'ORACLE_ALWAYS', True):
        for i, c in enumerate(cases):
            cid = f'c{i}'
            if any(cid == d[0] for d in disagreements):
                continue
            ir, mr = impl.get(cid), model.get(cid)
            if ir is None or ir.startswith('RESOURCE:'):
                continue
            reason = P.spec_check(c, ir, mr)
            if reason:
                lab = P.classify(c, ir, mr) if hasattr(P, 'classify') else 'unclassified'
                failing.append((cid, c, ir, mr, reason, lab))

    new_fail = []
    for f in failing:
        lab = f[5]
        if lab in known_open:
            known_hits.setdefault(lab, f)
        else:
            new_fail.append(f)

    replay_n = 0

    def replay_cmd(case):
        return f'cd /verif && ./check {pid} --replay {json.dumps(case)}'

    if new_fail:
        # shrink the first failure of each label
        by_label = {}
        for f in new_fail:
            by_label.setdefault(f[5], f)
        for lab, f in by_label.items():
            cid, c, ir, mr, reason, _ = f
            if hasattr(P, 'shrink') and replay is None:
                c, ir, mr, reason = shrink_case(P, c, ir, mr, reason, work)
            replay_n += 1
            rp = write_replay(pid, replay_n, {
                'property': pid, 'kind': 'failing-input', 'label': lab, 'case': c,
                'observed_impl': ir, 'observed_model': mr, 'spec': reason,
                'broken': (pr['error'] if not pr['ok'] else 'correspondence impl=model'),
                'replay_cmd': replay_cmd(c)})
            violations.append(('input', lab, reason, str(rp)))
    elif nofail or not pr['ok'] or tie_broken or harness_error:
        what = []
        if not pr['ok']:
            what.append('proof: ' + str(pr['error']))
        if tie_broken:
            what.append('tie: ' + tie_broken)
        if harness_error:
            what.append('harness: ' + harness_error[-600:])
        if nofail:
            what.append(f'correspondence: {len(nofail)} cases where implementation and model differ '
                        f'on a property observable although the spec oracle accepts the implementation result')
        replay_n += 1
        rp = write_replay(pid, replay_n, {
            'property': pid, 'kind': 'no-failing-input-found', 'broken': what,
            'first_disagreements': [{'case': c, 'impl': ir, 'model': mr} for (_, c, ir, mr) in nofail[:5]],
            'replay_cmd': f'cd /verif && ./check {pid} --tier {tier}'})
        violations.append(('nofail', 'unexplained', '; '.join(what)[:300], str(rp)))

    for lab, f in known_hits.items():
        log(f'KNOWN-FINDING: property={pid} {known_open[lab].get("text", lab)}')
    # known findings that no longer reproduce are only noted (a fixed tree is fine)
    for lab in known_open:
        if lab not in known_hits:
            notes.append(f'known finding {lab} did not reproduce in this run')

    wall = time.time() - t0
    tb = list(getattr(P, 'TRUSTED_BASE', []))
    used_ax = sorted({a for l in pr['axioms'].values() for a in l})
    tb.insert(0, 'Coq 8.16.1 kernel (coqc, vm_compute; no native_compute)')
    tb.insert(1, 'axioms reported by Print Assumptions: ' + (', '.join(used_ax) if used_ax else 'none (all theorems closed under the global context)'))
    ev = {
        'property_id': pid, 'tier': tier, 'seed': seed, 'level': 'proof',
        'coverage': {
            'obligations': len(pr['theorems']),
            'discharged': len([t for t in pr['theorems'] if t in pr['discharged']]) if pr['ok'] else
                          len([t for t in pr['theorems'] if t in pr['discharged']]),
            'checker_cmd': f'make -C /verif/coq Properties_{pid}.vo  (coqc 8.16.1, full .vo build); '
                           f'coqc Properties_{pid}.v for Print Assumptions'
                           + ('; coqchk -o -silent Celma.Properties_%s' % pid if tier == 'thorough' else ''),
            'trusted_base': tb,
            'theorems': [{'name': t, 'accepted': t in pr['discharged'], 'axioms': pr['axioms'].get(t, None)}
                         for t in pr['theorems']],
            'proof_ok': pr['ok'], 'proof_error': pr['error'],
            'evaluations': corr['evaluations'], 'distinct_nontrivial': corr['distinct_nontrivial'],
            'rule': getattr(P, 'RULE', ''),
            'samples': corr['samples'] or [{'obligation': t} for t in pr['theorems'][:3]],
            'exhaustive': corr['exhaustive'], 'scopes': corr['scopes'],
            'correspondence': {k: corr.get(k, 0) for k in ('agree', 'disagree', 'drift', 'outside_model', 'resource_limit')},
            'input_distribution': corr['histogram'],
            'known_findings_reproduced': sorted(known_hits.keys()),
            'notes': notes, 'extra': {k: v for k, v in extra.items() if k != 'violations'},
        },
        'assumptions': list(getattr(P, 'ASSUMPTIONS', [])),
        'wall_s': round(wall, 2),
        'violations': len(violations),
    }
    if coqchk_out:
        ev['coverage']['coqchk'] = coqchk_out
    write_evidence(pid, ev)
    shutil.rmtree(work, ignore_errors=True)
    for (kind, lab, text, rp) in violations:
        tail = ' no-failing-input-found' if kind == 'nofail' or (kind == 'extra' and isinstance(rp, dict) and not rp.get('found_input', True)) else ''
        if isinstance(rp, dict):
            nonlocal_n = len(list((VERIF / 'replays' / pid).glob('*.json'))) + 1 if (VERIF / 'replays' / pid).exists() else 1
            rp = str(write_replay(pid, nonlocal_n, dict(rp, property=pid)))
        log(f'[{pid}] {lab}: {text[:400]}')
        log(f'VIOLATION property={pid} replay={rp}{tail}')
    if not violations:
        log(f'[{pid}] OK  ({wall:.1f}s)')
    return 1 if violations else 0


def shrink_case(P, c, ir, mr, reason, work, budget=40):
    """greedy shrinking: try the plugin's smaller candidates, keep one that still fails"""
    exe, _ = build_harness(P.HARNESS['name'], P.HARNESS['sources'], P.HARNESS.get('repo_sources', ()),
                           sanitize=P.HARNESS.get('sanitize', True), extra_flags=P.HARNESS.get('flags', ()),
                           compiler=P.HARNESS.get('compiler', 'g++'), libs=P.HARNESS.get('libs', ('-lpthread',)))
    drv = build_driver(getattr(P, 'MODEL_ID', P.ID))
    rounds = 0
    while rounds < budget:
        rounds += 1
        cands = [x for x in P.shrink(c) if x != c][:200]
        if not cands:
            break
        cf = work / 'shrink.txt'
        cf.write_text(''.join(f's{i} {x}\n' for i, x in enumerate(cands)))
        im = run_cases(exe, cf, env=P.HARNESS.get('env'))
        mo = run_cases(drv, cf)
        hit = None
        for i, x in enumerate(cands):
            a, b = im.get(f's{i}'), mo.get(f's{i}')
            if a is None:
                continue
            r = P.spec_check(x, a, b)
            if r:
                hit = (x, a, b, r)
                break
        if hit is None:
            break
        c, ir, mr, reason = hit
    return c, ir, mr, reason
