# setup: build the whole Coq development (full .vo), extract the models, build the OCaml drivers.
# Files of properties that are still being worked on may fail to compile; setup only insists on the
# proof and extraction targets of the properties claimed in MANIFEST.json (tools/check_setup.py).
.PHONY: setup coq drivers clean
setup: coq drivers
	python3 tools/check_setup.py

coq:
	python3 -c "import sys; sys.path.insert(0,'/verif/lib'); import vf; vf.coq_prepare()"
	-timeout 3000 $(MAKE) -C coq -k -j16

drivers: coq
	-python3 tools/build_drivers.py

clean:
	-$(MAKE) -C coq clean
	rm -rf .work .cache ocaml/gen ocaml/bin coq/Makefile coq/Makefile.conf coq/_CoqProject
