# setup: build the whole Coq development (full .vo), extract the models, build the OCaml drivers
.PHONY: setup coq drivers clean
setup: coq drivers

coq:
	python3 -c "import sys; sys.path.insert(0,'/verif/lib'); import vf; vf.coq_prepare()"
	timeout 3000 $(MAKE) -C coq -k -j16

drivers: coq
	python3 tools/build_drivers.py

clean:
	-$(MAKE) -C coq clean
	rm -rf .work .cache ocaml/gen ocaml/bin coq/Makefile coq/Makefile.conf coq/_CoqProject
