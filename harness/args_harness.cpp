// Shared implementation harness for the argument handler (C01-C08, C18):
// interprets a small configuration language into real celma::prog_args
// library calls, evaluates an argument vector (optionally preceded by an
// argument file and an environment variable) and prints the outcome, the
// canonical value of every destination slot and the identified-argument trace.
//
// case line:  <id> <token> <token> ...       (tokens contain no blanks)
//   H:f=<int>                 handler flags (Handler::HandleFlags bit set), one handler
//   G:<name>:f=<int>          start of a group member handler (evaluation through Groups)
//   arg:<keyspec>:<slot>:<opt>/<opt>/...      (options: see applyOption; fmtpos=<idx>~<upper|lower> = addFormatPos)
//   con:<all_of|any_of|one_of|differ|disjoint>:<spec>
//   prog:<hex>                argv[0]
//   file:<hex>                content of $HOME/.progargs/<prog>.pa
//   env:<hex>                 content of the environment variable named after the program
//   argv:<hex>,<hex>,...      the words after argv[0]   ("argv:-" = none)
//   line:<hex>                use evalArgumentString(handler, line) instead of argv
//   out:usage                 print what was written to the handler's output stream
// result:  <ok|err|setup> <slot>=<value> ...  [out=<hex>] ## <exception class> | <trace hex>
#include <algorithm>
#include <array>
#include <bitset>
#include <deque>
#include <forward_list>
#include <list>
#include <map>
#include <optional>
#include <queue>
#include <set>
#include <sstream>
#include <stack>
#include <tuple>
#include <typeinfo>
#include <unordered_map>
#include <unordered_set>
#include <unistd.h>
#include <sys/stat.h>
#include "case_io.hpp"
#include "celma/prog_args.hpp"
#include "celma/prog_args/eval_argument_string.hpp"
#include "celma/prog_args/groups.hpp"
#include "celma/common/range_dest.hpp"
#include "celma/prog_args/detail/check_lower.hpp"
#include "celma/prog_args/detail/check_upper.hpp"
#include "celma/prog_args/detail/check_range.hpp"
#include "celma/prog_args/detail/check_values.hpp"
#include "celma/prog_args/detail/check_min_length.hpp"
#include "celma/prog_args/detail/check_max_length.hpp"
#include "celma/prog_args/detail/check_pattern.hpp"
#include "celma/prog_args/detail/cardinality_exact.hpp"
#include "celma/prog_args/detail/cardinality_max.hpp"
#include "celma/prog_args/detail/cardinality_range.hpp"
#include "celma/prog_args/detail/format_uppercase.hpp"
#include "celma/prog_args/detail/format_lowercase.hpp"
#include "celma/prog_args/level_counter.hpp"
#include "celma/appl/arg_string_2_array.hpp"

namespace pa = celma::prog_args;
using celma::prog_args::detail::TypedArgBase;

namespace {

constexpr int NS = 4;

struct Slots
{
   bool                              b[NS] = { false, false, true, true };
   int                               i[NS] = { 0, 0, 0, 0 };
   unsigned                          u[NS] = { 0, 0, 0, 0 };
   unsigned long                     ul[NS] = { 0, 0, 0, 0 };   // the wide and the narrow integer types
   long long                         ll[NS] = { 0, 0, 0, 0 };
   unsigned short                    uh[NS] = { 0, 0, 0, 0 };
   short                             h[NS] = { 0, 0, 0, 0 };
   double                            d[NS] = { 0, 0, 0, 0 };
   std::string                       s[NS];
   std::optional<int>                oi[NS];
   std::optional<bool>               ob[NS];   // a flag whose destination is an optional
   std::optional<std::string>        os[NS];
   std::vector<int>                  vi[NS];
   std::vector<std::string>          vs[NS];
   std::deque<int>                   di[NS];
   std::list<int>                    li[NS];
   std::forward_list<int>            fi[NS];
   std::set<int>                     si[NS];
   std::multiset<int>                mi[NS];
   std::unordered_set<int>           usi[NS];
   std::unordered_multiset<int>      umi[NS];
   std::queue<int>                   qi[NS];
   std::stack<int>                   ki[NS];
   std::priority_queue<int>          pi[NS];
   // fixed-size destinations: every slot is its own exact-size heap block, so that AddressSanitizer sees a write
   // behind the last element (inside one struct it would land in the neighbour slot unnoticed)
   // range-string destinations: a bitset of 1024 positions (own heap block) and a vector
   std::bitset<1024>*               rbP[NS];
   std::bitset<200>*                bslP[NS];   // a bit-set destination in a heap block of its own (several words)
   std::vector<int>                  rv[NS];
   using Arr4 = int[4];
   Arr4*                             aiP[NS];
   std::array<int, 4>*               riP[NS];
   Arr4&                             AI(size_t n) { return *aiP[n]; }
   std::array<int, 4>&               RI(size_t n) { return *riP[n]; }
   Slots()
   {
      for (size_t n = 0; n < NS; ++n)
      {
         aiP[n] = reinterpret_cast<Arr4*>(new int[4]());
         riP[n] = new std::array<int, 4>();
         rbP[n] = new std::bitset<1024>();
         bslP[n] = new std::bitset<200>();
      }
   }
   ~Slots()
   {
      for (size_t n = 0; n < NS; ++n)
      {
         delete[] reinterpret_cast<int*>(aiP[n]);
         delete riP[n];
         delete rbP[n];
         delete bslP[n];
      }
   }
   Slots(const Slots&) = delete;
   Slots& operator=(const Slots&) = delete;
   std::tuple<int, std::string, int> ti[NS];
   std::bitset<16>                   bs[NS];
   std::vector<bool>                 vb[NS];
   std::map<std::string, int>        ms[NS];
   // the other key-value destinations (KeyValueContainerAdapter<>): keys may repeat in the multi-maps
   std::multimap<std::string, int>             mms[NS];
   std::unordered_map<std::string, int>        ums[NS];
   std::unordered_multimap<std::string, int>   umms[NS];
   pa::LevelCounter                  lc[NS];
   std::vector<std::string>          used;   // slots bound by the configuration
};

template<typename C> std::string joinInts(const C& c)
{
   std::string r = "[";
   bool first = true;
   for (auto const& v : c) { if (!first) r += ","; r += std::to_string(v); first = false; }
   return r + "]";
}

std::string slotKind(const std::string& slot)
{
   size_t k = 0;
   while (k < slot.size() && !isdigit(static_cast<unsigned char>(slot[k]))) ++k;
   return slot.substr(0, k);
}

int slotIdx(const std::string& slot)
{
   const std::string k = slotKind(slot);
   const int idx = std::stoi(slot.substr(k.size()));
   if (idx < 0 || idx >= NS) throw std::invalid_argument("slot index");
   return idx;
}

void initSlot(Slots& S, const std::string& slot, const std::vector<std::string>& init)
{
   const std::string k = slotKind(slot);
   const int n = slotIdx(slot);
   auto ints = [&]() { std::vector<int> r; for (auto& x : init) r.push_back(std::stoi(x)); return r; };
   if (k == "b") S.b[n] = init.at(0) == "1";
   else if (k == "i") S.i[n] = std::stoi(init.at(0));
   else if (k == "u") S.u[n] = static_cast<unsigned>(std::stoul(init.at(0)));
   else if (k == "ul") S.ul[n] = std::stoul(init.at(0));
   else if (k == "ll") S.ll[n] = std::stoll(init.at(0));
   else if (k == "uh") S.uh[n] = static_cast<unsigned short>(std::stoul(init.at(0)));
   else if (k == "h") S.h[n] = static_cast<short>(std::stoi(init.at(0)));
   else if (k == "d") S.d[n] = std::stod(init.at(0));
   else if (k == "s") S.s[n] = vf::unhexs(init.at(0));
   else if (k == "oi") S.oi[n] = std::stoi(init.at(0));
   else if (k == "ob") S.ob[n] = init.at(0) == "1";
   else if (k == "os") S.os[n] = vf::unhexs(init.at(0));
   else if (k == "vi") S.vi[n] = ints();
   else if (k == "vs") { for (auto& x : init) S.vs[n].push_back(vf::unhexs(x)); }
   else if (k == "di") { for (int x : ints()) S.di[n].push_back(x); }
   else if (k == "li") { for (int x : ints()) S.li[n].push_back(x); }
   else if (k == "fi") { auto v = ints(); S.fi[n].assign(v.begin(), v.end()); }
   else if (k == "si") { for (int x : ints()) S.si[n].insert(x); }
   else if (k == "mi") { for (int x : ints()) S.mi[n].insert(x); }
   else if (k == "usi") { for (int x : ints()) S.usi[n].insert(x); }
   else if (k == "umi") { for (int x : ints()) S.umi[n].insert(x); }
   else if (k == "qi") { for (int x : ints()) S.qi[n].push(x); }
   else if (k == "ki") { for (int x : ints()) S.ki[n].push(x); }
   else if (k == "pi") { for (int x : ints()) S.pi[n].push(x); }
   else if (k == "ai") { auto v = ints(); for (size_t j = 0; j < 4 && j < v.size(); ++j) S.AI(n)[j] = v[j]; }
   else if (k == "ri") { auto v = ints(); for (size_t j = 0; j < 4 && j < v.size(); ++j) S.RI(n)[j] = v[j]; }
   else if (k == "bs") { for (int x : ints()) S.bs[n].set(x); }
   else if (k == "vb") { auto v = ints(); S.vb[n].resize(v.at(0)); for (size_t j = 1; j < v.size(); ++j) S.vb[n][v[j]] = true; }
   else if (k == "ms" || k == "mms" || k == "ums" || k == "umms")
   {
      // init=<key hex>.<int>~<key hex>.<int>... : the pairs are inserted in this order
      for (auto& x : init)
      {
         const size_t dot = x.find('.');
         if (dot == std::string::npos) throw std::invalid_argument("init pair " + x);
         const std::string key = vf::unhexs(x.substr(0, dot));
         const int val = std::stoi(x.substr(dot + 1));
         if (k == "ms") S.ms[n].insert({ key, val });
         else if (k == "mms") S.mms[n].insert({ key, val });
         else if (k == "ums") S.ums[n].insert({ key, val });
         else S.umms[n].insert({ key, val });
      }
   }
   else throw std::invalid_argument("init for slot kind " + k);
}

TypedArgBase* bindSlot(Slots& S, const std::string& slot)
{
   const std::string k = slotKind(slot);
   const int n = slotIdx(slot);
   S.used.push_back(slot);
   if (k == "b") return pa::destination(S.b[n], slot);
   if (k == "i") return pa::destination(S.i[n], slot);
   if (k == "u") return pa::destination(S.u[n], slot);
   if (k == "ul") return pa::destination(S.ul[n], slot);
   if (k == "ll") return pa::destination(S.ll[n], slot);
   if (k == "uh") return pa::destination(S.uh[n], slot);
   if (k == "h") return pa::destination(S.h[n], slot);
   if (k == "d") return pa::destination(S.d[n], slot);
   if (k == "s") return pa::destination(S.s[n], slot);
   if (k == "oi") return pa::destination(S.oi[n], slot);
   if (k == "ob") return pa::destination(S.ob[n], slot);
   if (k == "os") return pa::destination(S.os[n], slot);
   if (k == "vi") return pa::destination(S.vi[n], slot);
   if (k == "vs") return pa::destination(S.vs[n], slot);
   if (k == "di") return pa::destination(S.di[n], slot);
   if (k == "li") return pa::destination(S.li[n], slot);
   if (k == "fi") return pa::destination(S.fi[n], slot);
   if (k == "si") return pa::destination(S.si[n], slot);
   if (k == "mi") return pa::destination(S.mi[n], slot);
   if (k == "usi") return pa::destination(S.usi[n], slot);
   if (k == "umi") return pa::destination(S.umi[n], slot);
   if (k == "qi") return pa::destination(S.qi[n], slot);
   if (k == "ki") return pa::destination(S.ki[n], slot);
   if (k == "pi") return pa::destination(S.pi[n], slot);
   if (k == "ai") return pa::destination(S.AI(n), slot);
   if (k == "ri") return pa::destination(S.RI(n), slot);
   if (k == "ti") return pa::destination(S.ti[n], slot);
   if (k == "bs") return pa::destination(S.bs[n], slot);
   if (k == "bsl") return pa::destination(*S.bslP[n], slot);
   if (k == "vb") return pa::destination(S.vb[n], slot);
   if (k == "ms") return pa::destination(S.ms[n], slot);
   if (k == "mms") return pa::destination(S.mms[n], slot);
   if (k == "ums") return pa::destination(S.ums[n], slot);
   if (k == "umms") return pa::destination(S.umms[n], slot);
   if (k == "rb") return pa::destination(celma::common::RangeDest<size_t, std::bitset<1024>>(*S.rbP[n]), slot);
   if (k == "rv") return pa::destination(celma::common::RangeDest<int, std::vector<int>>(S.rv[n]), slot);
   if (k == "lc") return pa::destination(S.lc[n], slot);
   throw std::invalid_argument("unknown slot kind " + k);
}

std::string dumpSlot(Slots& S, const std::string& slot)
{
   const std::string k = slotKind(slot);
   const int n = slotIdx(slot);
   char buf[64];
   if (k == "b") return S.b[n] ? "1" : "0";
   if (k == "i") return std::to_string(S.i[n]);
   if (k == "u") return std::to_string(S.u[n]);
   if (k == "ul") return std::to_string(S.ul[n]);
   if (k == "ll") return std::to_string(S.ll[n]);
   if (k == "uh") return std::to_string(S.uh[n]);
   if (k == "h") return std::to_string(S.h[n]);
   if (k == "d") { std::snprintf(buf, sizeof buf, "%a", S.d[n]); return buf; }
   if (k == "s") return "s" + vf::hex(S.s[n]);
   if (k == "oi") return S.oi[n] ? std::to_string(*S.oi[n]) : "none";
   if (k == "ob") return S.ob[n] ? (*S.ob[n] ? "1" : "0") : "none";
   if (k == "os") return S.os[n] ? "s" + vf::hex(*S.os[n]) : "none";
   if (k == "vi") return joinInts(S.vi[n]);
   if (k == "vs") { std::string r = "["; for (size_t j = 0; j < S.vs[n].size(); ++j) r += (j ? "," : "") + ("s" + vf::hex(S.vs[n][j])); return r + "]"; }
   if (k == "di") return joinInts(S.di[n]);
   if (k == "li") return joinInts(S.li[n]);
   if (k == "fi") return joinInts(S.fi[n]);
   if (k == "si") return joinInts(S.si[n]);
   if (k == "mi") return joinInts(S.mi[n]);
   if (k == "usi") { std::vector<int> v(S.usi[n].begin(), S.usi[n].end()); std::sort(v.begin(), v.end()); return joinInts(v); }
   if (k == "umi") { std::vector<int> v(S.umi[n].begin(), S.umi[n].end()); std::sort(v.begin(), v.end()); return joinInts(v); }
   if (k == "qi") { auto q = S.qi[n]; std::vector<int> v; while (!q.empty()) { v.push_back(q.front()); q.pop(); } return joinInts(v); }
   if (k == "ki") { auto q = S.ki[n]; std::vector<int> v; while (!q.empty()) { v.push_back(q.top()); q.pop(); } return joinInts(v); }
   if (k == "pi") { auto q = S.pi[n]; std::vector<int> v; while (!q.empty()) { v.push_back(q.top()); q.pop(); } return joinInts(v); }
   if (k == "ai") { std::vector<int> v(S.AI(n), S.AI(n) + 4); return joinInts(v); }
   if (k == "ri") return joinInts(S.RI(n));
   if (k == "ti") return "(" + std::to_string(std::get<0>(S.ti[n])) + ",s" + vf::hex(std::get<1>(S.ti[n])) + "," + std::to_string(std::get<2>(S.ti[n])) + ")";
   if (k == "bs") { std::vector<int> v; for (size_t j = 0; j < 16; ++j) if (S.bs[n][j]) v.push_back(j); return joinInts(v); }
   if (k == "bsl") { std::vector<int> v; for (size_t j = 0; j < 200; ++j) if ((*S.bslP[n])[j]) v.push_back(static_cast<int>(j)); return joinInts(v); }
   if (k == "vb") { std::vector<int> v; for (size_t j = 0; j < S.vb[n].size(); ++j) if (S.vb[n][j]) v.push_back(j); return std::to_string(S.vb[n].size()) + joinInts(v); }
   if (k == "rb") { std::vector<int> v; for (size_t j = 0; j < 1024; ++j) if ((*S.rbP[n])[j]) v.push_back(static_cast<int>(j)); return joinInts(v); }
   if (k == "rv") return joinInts(S.rv[n]);
   if (k == "ms") { std::string r = "{"; bool f = true; for (auto& kv : S.ms[n]) { r += (f ? "" : ",") + ("s" + vf::hex(kv.first)) + ":" + std::to_string(kv.second); f = false; } return r + "}"; }
   if (k == "mms" || k == "ums" || k == "umms")
   {
      // multimap: iteration order (ascending keys, equal keys in insertion order); the unordered kinds have no
      // order of their own: canonical = sorted by (key, value)
      std::vector<std::pair<std::string, int>> v;
      if (k == "mms") v.assign(S.mms[n].begin(), S.mms[n].end());
      else if (k == "ums") { v.assign(S.ums[n].begin(), S.ums[n].end()); std::sort(v.begin(), v.end()); }
      else { v.assign(S.umms[n].begin(), S.umms[n].end()); std::sort(v.begin(), v.end()); }
      std::string r = "{";
      bool f = true;
      for (auto& kv : v) { r += (f ? "" : ",") + ("s" + vf::hex(kv.first)) + ":" + std::to_string(kv.second); f = false; }
      return r + "}";
   }
   if (k == "lc") return std::to_string(S.lc[n].value());
   return "?";
}

bool numericKind(const std::string& k) { return k != "s" && k != "os" && k != "vs" && k != "d" && k != "ti" && k != "ms" && k != "mms" && k != "ums" && k != "umms"; }

void applyOption(TypedArgBase* a, const std::string& slot, const std::string& opt)
{
   const std::string k = slotKind(slot);
   auto eq = opt.find('=');
   const std::string name = opt.substr(0, eq);
   const std::string val = eq == std::string::npos ? "" : opt.substr(eq + 1);
   auto p = vf::split(val, '~');
   if (name == "man") a->setIsMandatory();
   else if (name == "vm")
      a->setValueMode(val == "opt" ? TypedArgBase::ValueMode::optional
                      : val == "req" ? TypedArgBase::ValueMode::required
                      : val == "cmd" ? TypedArgBase::ValueMode::command : TypedArgBase::ValueMode::none);
   else if (name == "multi") a->setTakesMultiValue();
   else if (name == "sep") a->setListSep(static_cast<char>(std::stoi(val, nullptr, 16)));
   else if (name == "clear") a->setClearBeforeAssign();
   else if (name == "sort") a->setSortData();
   else if (name == "uniq") a->setUniqueData(false);
   else if (name == "uniq!") a->setUniqueData(true);
   else if (name == "hidden") a->setIsHidden();
   else if (name == "depr") a->setIsDeprecated();
   else if (name == "repl") a->setReplacedBy(vf::unhexs(val));
   else if (name == "nodef") a->setPrintDefault(false);
   else if (name == "def") a->setPrintDefault(true);
   else if (name == "unset") a->unsetFlag();
   else if (name == "inv") a->allowsInversion();
   else if (name == "mix") a->setAllowMixIncSet();
   else if (name == "card")
   {
      if (p.at(0) == "max") a->setCardinality(pa::cardinality_max(std::stoi(p.at(1))));
      else if (p.at(0) == "exact") a->setCardinality(pa::cardinality_exact(std::stoi(p.at(1))));
      else if (p.at(0) == "range") a->setCardinality(pa::cardinality_range(std::stoi(p.at(1)), std::stoi(p.at(2))));
      else a->setCardinality(nullptr);
   }
   else if (name == "chk")
   {
      if (p.at(0) == "lower") { if (k == "d") a->addCheck(pa::lower(std::stod(p.at(1)))); else a->addCheck(pa::lower(std::stoi(p.at(1)))); }
      else if (p.at(0) == "upper") { if (k == "d") a->addCheck(pa::upper(std::stod(p.at(1)))); else a->addCheck(pa::upper(std::stoi(p.at(1)))); }
      else if (p.at(0) == "range") { if (k == "d") a->addCheck(pa::range(std::stod(p.at(1)), std::stod(p.at(2)))); else a->addCheck(pa::range(std::stoi(p.at(1)), std::stoi(p.at(2)))); }
      else if (p.at(0) == "ivalues") { std::string l; for (size_t j = 1; j < p.size(); ++j) l += (j > 1 ? "," : "") + p[j]; a->addCheck(pa::values(l, true)); }
      else if (p.at(0) == "values") { std::string l; for (size_t j = 1; j < p.size(); ++j) l += (j > 1 ? "," : "") + p[j]; a->addCheck(pa::values(l)); }
      else if (p.at(0) == "minlen") a->addCheck(pa::minLength(std::stoul(p.at(1))));
      else if (p.at(0) == "maxlen") a->addCheck(pa::maxLength(std::stoul(p.at(1))));
      else if (p.at(0) == "pattern") a->addCheck(pa::pattern(vf::unhexs(p.at(1))));
      else throw std::invalid_argument("check " + p.at(0));
   }
   else if (name == "fmt") { if (val == "upper") a->addFormat(pa::uppercase()); else a->addFormat(pa::lowercase()); }
   else if (name == "fmtpos")
   {
      // fmtpos=<idx>~<upper|lower> : formatter for the value at position idx (addFormatPos)
      const int idx = std::stoi(p.at(0));
      if (p.at(1) == "upper") a->addFormatPos(idx, pa::uppercase()); else a->addFormatPos(idx, pa::lowercase());
   }
   else if (name == "excl") a->addConstraint(pa::excludes(val));
   else if (name == "req") a->addConstraint(pa::requiresArg(val));
   else if (name == "init" || name == "desc" || name == "try") { /* handled elsewhere */ }
   else if (!name.empty()) throw std::invalid_argument("unknown option " + name);
}

const char* excClass(const std::exception& e)
{
   if (dynamic_cast<const pa::argument_error*>(&e)) return "argument_error";
   if (dynamic_cast<const boost::bad_lexical_cast*>(&e)) return "bad_lexical_cast";
   if (dynamic_cast<const std::underflow_error*>(&e)) return "underflow_error";
   if (dynamic_cast<const std::overflow_error*>(&e)) return "overflow_error";
   if (dynamic_cast<const std::range_error*>(&e)) return "range_error";
   if (dynamic_cast<const std::out_of_range*>(&e)) return "out_of_range";
   if (dynamic_cast<const std::invalid_argument*>(&e)) return "invalid_argument";
   if (dynamic_cast<const std::length_error*>(&e)) return "length_error";
   if (dynamic_cast<const std::domain_error*>(&e)) return "domain_error";
   if (dynamic_cast<const std::runtime_error*>(&e)) return "runtime_error";
   if (dynamic_cast<const std::logic_error*>(&e)) return "logic_error";
   if (dynamic_cast<const std::bad_cast*>(&e)) return "bad_cast";
   return "other";
}

struct Member { std::string name; int flags; std::vector<std::string> args; std::vector<std::string> cons; std::string subkey; std::string subopts; bool valueHandler = false; };

// "split:<hex>" : appl::make_arg_array on the string, both constructors
std::string run_split(const std::string& text)
{
   std::string res = "ok";
   auto const a1 = celma::appl::make_arg_array(text);
   auto const a2 = celma::appl::make_arg_array(text, "prg");
   std::string words;
   for (int i = 0; i < a1.mArgC; ++i) words += (i ? "," : "") + vf::hex(std::string(a1.mpArgV[i]));
   bool same = (a2.mArgC == a1.mArgC + 1) && (std::string(a2.mpArgV[0]) == "prg")
               && (a1.mpArgV[a1.mArgC] == nullptr) && (a2.mpArgV[a2.mArgC] == nullptr);
   for (int i = 0; same && i < a1.mArgC; ++i) same = std::string(a1.mpArgV[i]) == std::string(a2.mpArgV[i + 1]);
   res += " words=" + (words.empty() ? std::string("-") : words);
   if (!same) res += " CONSTRUCTORS-DIFFER";
   return res + " ## argc=" + std::to_string(a1.mArgC);
}

std::string run_case(const std::vector<std::string>& w)
{
   for (size_t t = 1; t < w.size(); ++t)
      if (w[t].rfind("split:", 0) == 0) return run_split(vf::unhexs(w[t].substr(6)));
   Slots S;
   std::vector<Member> members;
   bool useGroups = false;
   std::string prog = "prog", fileContent, envContent, line;
   bool haveFile = false, haveEnv = false, haveLine = false, wantOut = false;
   std::vector<int> defOrder;
   std::vector<std::string> lateArgs;
   int groupFlags = -1;
   std::vector<std::pair<std::string, std::string>> xfiles;
   std::vector<std::string> xdirs;
   std::vector<std::string> argvWords;
   for (size_t t = 1; t < w.size(); ++t)
   {
      const std::string& tok = w[t];
      if (tok.rfind("H:f=", 0) == 0) members.push_back({ "", std::stoi(tok.substr(4)), {}, {} });
      else if (tok.rfind("S:", 0) == 0)
      {
         // S:<keyspec>:f=<flags>[:<opts>] : a sub-group handler, attached to the first handler under <keyspec>; the
         // following arg: / con: tokens belong to it; <opts> (man, card=...) are set on the sub-group argument
         auto p = vf::split(tok, ':');
         members.push_back({ "", std::stoi(p.at(2).substr(2)), {}, {}, p.at(1), p.size() > 3 ? p.at(3) : std::string() });
      }
      else if (tok.rfind("GS:f=", 0) == 0) groupFlags = std::stoi(tok.substr(5));   // flags of the Groups singleton
      else if (tok.rfind("G:", 0) == 0 || tok.rfind("GV:", 0) == 0)
      {
         // G:<name>:f=<flags> a member handler of the group; GV: the same as a value handler
         // (Groups::getArgValueHandler)
         useGroups = true;
         auto p = vf::split(tok, ':');
         members.push_back({ p.at(1), std::stoi(p.at(2).substr(2)), {}, {} });
         members.back().valueHandler = tok[1] == 'V';
      }
      else if (tok.rfind("arg:", 0) == 0 || tok.rfind("probe:", 0) == 0) members.back().args.push_back(tok);
      else if (tok.rfind("late:arg:", 0) == 0) lateArgs.push_back(tok.substr(5));   // defined on the owner after the sub-groups
      else if (tok.rfind("con:", 0) == 0) members.back().cons.push_back(tok);
      else if (tok.rfind("prog:", 0) == 0) prog = vf::unhexs(tok.substr(5));
      else if (tok.rfind("file:", 0) == 0) { haveFile = true; fileContent = vf::unhexs(tok.substr(5)); }
      else if (tok.rfind("env:", 0) == 0) { haveEnv = true; envContent = vf::unhexs(tok.substr(4)); }
      else if (tok.rfind("argv:", 0) == 0) { for (auto& x : vf::split(tok.substr(5), ',')) argvWords.push_back(vf::unhexs(x)); }
      else if (tok.rfind("line:", 0) == 0) { haveLine = true; line = vf::unhexs(tok.substr(5)); }
      else if (tok == "out:usage") wantOut = true;
      else if (tok.rfind("xfile:", 0) == 0)
      {
         // xfile:<name hex>:<content hex> : a file that an argument-file argument may name (written into the
         // private directory the harness runs in)
         auto p = vf::split(tok, ':');
         xfiles.emplace_back(vf::unhexs(p.at(1)), vf::unhexs(p.at(2)));
      }
      else if (tok.rfind("xdir:", 0) == 0) xdirs.push_back(vf::unhexs(tok.substr(5)));   // a directory of that name
      else if (tok.rfind("order:", 0) == 0) { for (auto& x : vf::split(tok.substr(6), ',')) defOrder.push_back(std::stoi(x)); }
   }
   // private HOME for the argument file; environment variable named after the program
   // (one directory per harness process: checks of different properties may run at the same time)
   static const std::string procdir = [] {
      const char* w = ::getenv("VERIF_WORK");
      std::string d = std::string(w ? w : ".");
      ::mkdir(d.c_str(), 0755);
      d += "/p" + std::to_string(::getpid());
      ::mkdir(d.c_str(), 0755);
      return d;
   }();
   const char* workdir = procdir.c_str();
   std::string home = std::string(workdir) + "/home";
   ::mkdir(home.c_str(), 0755);
   ::mkdir((home + "/.progargs").c_str(), 0755);
   ::setenv("HOME", home.c_str(), 1);
   std::string base = prog.substr(prog.find_last_of('/') == std::string::npos ? 0 : prog.find_last_of('/') + 1);
   const std::string paFile = home + "/.progargs/" + base + ".pa";
   ::unlink(paFile.c_str());
   if (haveFile) { std::ofstream f(paFile, std::ios::binary); f << fileContent; }
   if (!xfiles.empty() || !xdirs.empty())
   {
      const std::string afdir = std::string(workdir ? workdir : ".") + "/af";
      ::mkdir(afdir.c_str(), 0755);
      if (::chdir(afdir.c_str()) != 0) throw std::runtime_error("chdir " + afdir);
      for (auto& xf : xfiles) { std::ofstream f(xf.first, std::ios::binary); f << xf.second; }
      for (auto& xd : xdirs) ::mkdir(xd.c_str(), 0755);
   }
   std::string envName = base;
   for (auto& c : envName) c = static_cast<char>(toupper(static_cast<unsigned char>(c)));
   ::unsetenv(envName.c_str());
   if (haveEnv) ::setenv(envName.c_str(), envContent.c_str(), 1);

   std::ostringstream out, err;
   std::string outcome, excName = "-", excMsg;
   std::vector<std::unique_ptr<pa::Handler>> owned;
   std::vector<std::shared_ptr<pa::Handler>> shared;
   pa::Handler* single = nullptr;
   std::vector<std::pair<std::string, TypedArgBase*>> defined;   // slot -> argument object, for the probes
   std::string probes;
   try
   {
      if (useGroups) pa::Groups::reset();
      if (useGroups && groupFlags >= 0) pa::Groups::instance(groupFlags);
      // the handlers are created in the order of the configuration; the arguments are defined member by member,
      // or - with "order:<member>,<member>,..." - in the given interleaving (each entry defines the next argument
      // of that member) after all handlers were created
      std::vector<pa::Handler*> hs;
      pa::Handler* lastMember = nullptr;
      pa::Handler* lastCreatedMember = nullptr;
      auto create = [&](Member& m) {
         pa::Handler* h;
         if (useGroups && m.subkey.empty())
         {
            auto sp = m.valueHandler ? pa::Groups::instance().getArgValueHandler(m.name, m.flags)
                                     : pa::Groups::instance().getArgHandler(m.name, m.flags);
            shared.push_back(sp);
            h = sp.get();
            lastCreatedMember = h;
         } else
         {
            // a sub-group handler is created like any handler, or - option "subctor" - with the constructor for
            // sub-groups that takes the streams and some settings from its main handler
            pa::Handler* owner = useGroups ? lastCreatedMember : single;
            if (!m.subkey.empty() && m.subopts.find("subctor") != std::string::npos && owner != nullptr)
               owned.emplace_back(new pa::Handler(*owner, m.flags));
            else
               owned.emplace_back(new pa::Handler(out, err, m.flags));
            h = owned.back().get();
            if (m.subkey.empty()) single = h;
         }
         hs.push_back(h);
      };
      auto define = [&](pa::Handler* h, const std::string& a) {
         if (a.rfind("probe:", 0) == 0)
         {
            // probe:<word hex> : a look-up between two definitions (Handler::getArgHandler): which
            // argument the key designates now - "<slot>", "none" or "amb" (the look-up threw)
            const std::string word = vf::unhexs(a.substr(6));
            std::string answer = "none";
            try
            {
               TypedArgBase* found = nullptr;
               if (word.rfind("--", 0) == 0) found = h->getArgHandler(word.substr(2));
               else if (word.size() == 2) found = h->getArgHandler(word.substr(1));
               if (found != nullptr)
               {
                  answer = "other";
                  for (auto& d : defined) if (d.second == found) answer = d.first;
               }
            } catch (const std::exception&)
            {
               answer = "amb";
            }
            probes += (probes.empty() ? "" : ",") + answer;
            return;
         }
         // arg:<keyspec>:<slot>:<opts>
         const size_t p1 = a.find(':', 4);
         const size_t p2 = a.find(':', p1 + 1);
         const std::string keyspec = a.substr(4, p1 - 4);
         const std::string slot = a.substr(p1 + 1, p2 == std::string::npos ? std::string::npos : p2 - p1 - 1);
         auto opts = p2 == std::string::npos ? std::vector<std::string>() : vf::split(a.substr(p2 + 1), '/');
         std::string desc = "description of " + slot;
         for (auto& o : opts)
         {
            if (o.rfind("init=", 0) == 0) initSlot(S, slot, vf::split(o.substr(5), '~'));
            if (o.rfind("desc=", 0) == 0) desc = vf::unhexs(o.substr(5));
         }
         // slot "af<n>": the argument that names an argument file (Handler::addArgumentFile), no destination
         // option "try": a definition that is refused is survived (the caller catches the exception) and the
         // evaluation goes on with what was accepted
         const bool tolerated = std::find(opts.begin(), opts.end(), "try") != opts.end();
         TypedArgBase* ta = nullptr;
         try
         {
            ta = slot.rfind("af", 0) == 0 ? h->addArgumentFile(keyspec)
                                          : h->addArgument(keyspec, bindSlot(S, slot), desc);
         } catch (const std::exception&)
         {
            if (!tolerated) throw;
            return;
         }
         defined.emplace_back(slot, ta);
         for (auto& o : opts) applyOption(ta, slot, o);
      };
      auto constrain = [&](pa::Handler* h, Member& m) {
         for (auto& c : m.cons)
         {
            auto p = vf::split(c, ':');
            const std::string spec = p.at(2);
            if (p.at(1) == "all_of") h->addConstraint(pa::all_of(spec));
            else if (p.at(1) == "any_of") h->addConstraint(pa::any_of(spec));
            else if (p.at(1) == "one_of") h->addConstraint(pa::one_of(spec));
            else if (p.at(1) == "differ") h->addConstraint(pa::differ(spec));
            else if (p.at(1) == "disjoint") h->addConstraint(pa::disjoint(spec));
            else throw std::invalid_argument("constraint type");
         }
      };
      if (defOrder.empty())
      {
         for (auto& m : members)
         {
            create(m);
            for (auto& a : m.args) define(hs.back(), a);
            constrain(hs.back(), m);
            if (!m.subkey.empty())
            {
               // the owner of a sub-group: the single handler, or in a group the member defined last before it
               pa::Handler* owner = useGroups ? lastMember : single;
               if (owner == nullptr) throw std::invalid_argument("sub-group without main handler");
               TypedArgBase* sga = owner->addArgument(m.subkey, *hs.back(), "sub-group " + m.subkey);
               for (auto& o : vf::split(m.subopts, '/')) if (!o.empty() && o != "subctor") applyOption(sga, "sub0", o);
            } else
               lastMember = hs.back();
         }
         // arguments of the owner that are defined after its sub-group arguments
         for (auto& a : lateArgs) define(useGroups ? lastMember : single, a);
      } else
      {
         for (auto& m : members) create(m);
         std::vector<size_t> nextArg(members.size(), 0);
         for (int mi : defOrder)
         {
            Member& m = members.at(static_cast<size_t>(mi));
            define(hs.at(static_cast<size_t>(mi)), m.args.at(nextArg[mi]++));
         }
         for (size_t mi = 0; mi < members.size(); ++mi)
         {
            while (nextArg[mi] < members[mi].args.size()) define(hs[mi], members[mi].args[nextArg[mi]++]);
            constrain(hs[mi], members[mi]);
         }
      }
   } catch (const std::exception& e)
   {
      outcome = "setup"; excName = excClass(e); excMsg = e.what();
   }
   if (outcome.empty())
   {
      // argv as separately allocated, exactly sized blocks: ASan sees any overrun
      std::vector<std::unique_ptr<char[]>> store;
      std::vector<char*> argv;
      auto add = [&](const std::string& s) {
         store.emplace_back(new char[s.size() + 1]);
         std::memcpy(store.back().get(), s.c_str(), s.size() + 1);
         argv.push_back(store.back().get());
      };
      add(prog);
      for (auto& a : argvWords) add(a);
      std::unique_ptr<char*[]> av(new char*[argv.size() + 1]);
      for (size_t j = 0; j < argv.size(); ++j) av[j] = argv[j];
      av[argv.size()] = nullptr;
      try
      {
         if (useGroups) pa::Groups::instance().evalArguments(static_cast<int>(argv.size()), av.get());
         else if (haveLine) pa::evalArgumentString(*single, line, prog.c_str());
         else single->evalArguments(static_cast<int>(argv.size()), av.get());
         outcome = "ok";
      } catch (const std::exception& e)
      {
         outcome = "err"; excName = excClass(e); excMsg = e.what();
      } catch (...)
      {
         outcome = "err"; excName = "non-std";
      }
   }
   std::string res = outcome;
   std::vector<std::string> slots = S.used;
   std::sort(slots.begin(), slots.end());
   slots.erase(std::unique(slots.begin(), slots.end()), slots.end());
   std::string vals;
   for (auto& s : slots) vals += " " + s + "=" + dumpSlot(S, s);
   if (useGroups) { shared.clear(); pa::Groups::reset(); }
   ::unlink(paFile.c_str());
   for (auto& xf : xfiles) ::unlink(xf.first.c_str());
   for (auto& xd : xdirs) ::rmdir(xd.c_str());
   if (outcome == "ok") res += vals;
   if (!probes.empty() && outcome != "setup") res += " probes=" + probes;
   if (wantOut) res += " out=" + vf::hex(out.str());
   res += " ## " + excName + (outcome == "ok" ? "" : vals) + " | " + vf::hex(wantOut ? std::string() : out.str())
          + " | " + vf::hex(excMsg);
   return res;
}

} // namespace

int main(int argc, char** argv)
{
   const int rc = vf::main_loop(argc, argv, run_case);
   // remove the per-process scratch directory
   const char* w = ::getenv("VERIF_WORK");
   std::error_code ec;
   std::filesystem::remove_all(std::string(w ? w : ".") + "/p" + std::to_string(::getpid()), ec);
   return rc;
}
