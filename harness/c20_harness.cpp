// C20 harness: forced schedules on the real Singleton<T> and ManagedThread.
//
//   c20_harness singleton <threads> <rounds> forced|free
//   c20_harness managed   <observers> <rounds> forced|free|early
//
// forced: the critical schedule is constructed (singleton: the constructor of the
//         object does not return before every other thread has had ample time to
//         pass the unlocked check and queue up at the mutex; managed thread: the
//         hook point "managed_thread.after_start" holds the constructing thread
//         until the thread function runs).
// free:   no blocking callback, no synchronisation added by the harness between the
//         accesses under test: this is the mode of the ThreadSanitizer build.
// Output: one line "key=value ..." with the contract violations counted.
#include <atomic>
#include <chrono>
#include <cstdio>
#include <cstdlib>
#include <cstring>
#include <memory>
#include <mutex>
#include <string>
#include <thread>
#include <vector>
#include <unistd.h>

#include "verif_hooks.hpp"
#include "celma/common/singleton.hpp"
#include "celma/common/managed_thread.hpp"

namespace {

using clk = std::chrono::steady_clock;

bool wait_for( const std::atomic< int>& v, int want, int timeout_ms)
{
   auto  end = clk::now() + std::chrono::milliseconds( timeout_ms);
   while (v.load() != want)
   {
      if (clk::now() > end)
         return false;
      std::this_thread::yield();
   }
   return true;
}

// ---------------------------------------------------------------- singleton

std::atomic< int>  g_ctor{ 0};
int                g_ctor_delay_us = 0;

class Obj: public celma::common::Singleton< Obj>
{
   friend class celma::common::Singleton< Obj>;
public:
   int  id;
protected:
   Obj(): id( g_ctor.fetch_add( 1) + 1)
   {
      if (g_ctor_delay_us > 0)
         ::usleep( g_ctor_delay_us);
   }
};

int run_singleton( int n, int rounds, bool forced)
{
   g_ctor_delay_us = forced ? 3000 : 200;
   long  multi = 0, differ = 0, maxctor = 0, wrongid = 0;
   for (int r = 0; r < rounds; ++r)
   {
      Obj::reset();
      g_ctor.store( 0);
      std::atomic< int>  arrived{ 0}, go{ 0};
      std::vector< Obj*>  got( n, nullptr);
      std::vector< int>   ids( n, 0);
      std::vector< std::thread>  th;
      for (int i = 0; i < n; ++i)
         th.emplace_back( [&, i]()
         {
            arrived.fetch_add( 1);
            while (go.load() == 0)
               std::this_thread::yield();
            Obj&  o = Obj::instance();
            got[ i] = &o;
            ids[ i] = o.id;
         });
      wait_for( arrived, n, 10000);
      go.store( 1);
      for (auto& t : th)
         t.join();
      int  c = g_ctor.load();
      if (c > maxctor) maxctor = c;
      if (c != 1) ++multi;
      for (int i = 0; i < n; ++i)
      {
         if (got[ i] != got[ 0]) { ++differ; break; }
      }
      for (int i = 0; i < n; ++i)
      {
         if (ids[ i] != 1) { ++wrongid; break; }
      }
   }
   Obj::reset();
   std::printf( "mode=singleton threads=%d rounds=%d sched=%s rounds_not_one_construction=%ld "
                "max_constructions=%ld rounds_different_objects=%ld rounds_wrong_object=%ld\n",
                n, rounds, forced ? "forced" : "free", multi, maxctor, differ, wrongid);
   return 0;
}

// ------------------------------------------------------------ managed thread

struct Round
{
   std::atomic< int>  started{ 0};
   std::atomic< int>  finished{ 0};
   std::atomic< int>  release{ 0};
   std::atomic< int>  sampled{ 0};
   std::atomic< celma::common::ManagedThread*>  obj{ nullptr};
};

Round*             g_round = nullptr;
std::atomic< int>  g_hook_seen{ 0};
std::atomic< int>  g_hook_timeout{ 0};

void hook_forced( const char* name)
{
   if (std::strcmp( name, "managed_thread.after_start") != 0 || g_round == nullptr)
      return;
   g_hook_seen.fetch_add( 1);
   // hold the constructor until the thread function is running; if the thread has
   // not been started yet at this point (started in the constructor body) there
   // is nothing to wait for: give up after 30 ms
   if (!wait_for( g_round->started, 1, 30))
      g_hook_timeout.fetch_add( 1);
}

void hook_free( const char* name)
{
   if (std::strcmp( name, "managed_thread.after_start") != 0)
      return;
   g_hook_seen.fetch_add( 1);
   ::usleep( 300);   // widens the window, does not synchronise
}

void hook_none( const char* name)
{
   if (std::strcmp( name, "managed_thread.after_start") == 0)
      g_hook_seen.fetch_add( 1);
}

// sched: 0 = free (the hook widens the window), 1 = forced (the constructor is held until the thread function
// runs), 2 = early (no delay at all: the first query right after the constructor mostly precedes the start of
// the thread function)
int run_managed( int nobs, int rounds, int sched)
{
   const bool  forced = sched == 1;
   celma_verif::set_hook( sched == 1 ? hook_forced : sched == 2 ? hook_none : hook_free);
   long  early_false = 0;
   long  inactive_while_running = 0, active_after_join = 0, samples = 0, samples_running = 0;
   long  free_polls = 0, free_polls_active = 0;
   for (int r = 0; r < rounds; ++r)
   {
      Round  rd;
      g_round = &rd;
      std::atomic< long>  bad{ 0}, running{ 0};
      std::vector< std::thread>  obs;
      for (int i = 0; i < nobs; ++i)
         obs.emplace_back( [&]()
         {
            celma::common::ManagedThread*  mt = nullptr;
            while ((mt = rd.obj.load()) == nullptr)
               std::this_thread::yield();
            while (rd.started.load() == 0)       // has observed "function started"
               std::this_thread::yield();
            const bool  active = mt->isActive();
            const int   fin = rd.finished.load();  // still running after the query?
            if (fin == 0)
            {
               running.fetch_add( 1);
               if (!active)
                  bad.fetch_add( 1);
            }
            rd.sampled.fetch_add( 1);
         });
      // a thread that calls isActive() at arbitrary times, not synchronised with
      // anything the managed thread does (only its accesses matter, for TSan)
      std::atomic< int>   stop_poll{ 0};
      std::atomic< long>  polls{ 0};
      std::atomic< long>  polls_active{ 0};
      std::thread  poller( [&]()
      {
         celma::common::ManagedThread*  mt = nullptr;
         while ((mt = rd.obj.load()) == nullptr)
            std::this_thread::yield();
         long  seen = 0;
         while (stop_poll.load( std::memory_order_relaxed) == 0)
         {
            if (mt->isActive())
               ++seen;
            polls.fetch_add( 1, std::memory_order_relaxed);
         }
         polls_active.fetch_add( seen, std::memory_order_relaxed);
      });
      {
         celma::common::ManagedThread  mt( [&rd]()
         {
            rd.started.store( 1);
            wait_for( rd.release, 1, 10000);
            rd.finished.store( 1);
         });
         // a query right after the constructor: "false" is a legal answer here (not started yet) and must not
         // influence any later answer
         if (!mt.isActive())
            ++early_false;
         rd.obj.store( &mt);
         wait_for( rd.sampled, nobs, 10000);
         rd.release.store( 1);
         mt.join();
         if (mt.isActive())
            ++active_after_join;
         stop_poll.store( 1, std::memory_order_relaxed);
         poller.join();
         for (auto& t : obs)
            t.join();
      }
      samples += nobs;
      free_polls += polls.load();
      free_polls_active += polls_active.load();
      samples_running += running.load();
      inactive_while_running += bad.load();
      g_round = nullptr;
   }
   // short-lived objects: the destructor is the join - when it returns, the thread function has run and
   // finished (an object destroyed before the thread function was scheduled included), and nobody touches the
   // object afterwards (the function writes into a location the destroyed object does not own; ASan / TSan watch
   // the object itself)
   long  dtor_before_finish = 0;
   for (int r = 0; r < rounds; ++r)
   {
      std::atomic< int>  fin{ 0};
      {
         celma::common::ManagedThread  mt( [&fin]()
         {
            if (fin.load() == 0)
               ::usleep( 200);
            fin.store( 1);
         });
      }
      if (fin.load() == 0)
      {
         ++dtor_before_finish;
         // let the stray thread end before the flag goes out of scope
         for (int k = 0; k < 2000 && fin.load() == 0; ++k)
            ::usleep( 100);
      }
   }
   celma_verif::set_hook( nullptr);
   std::printf( "mode=managed observers=%d rounds=%d sched=%s samples=%ld samples_while_running=%ld "
                "inactive_while_running=%ld active_after_join=%ld hook_seen=%d hook_timeout=%d "
                "free_polls=%ld free_polls_active=%ld early_false=%ld dtor_before_finish=%ld\n",
                nobs, rounds, sched == 1 ? "forced" : sched == 2 ? "early" : "free", samples, samples_running,
                inactive_while_running, active_after_join, g_hook_seen.load(), g_hook_timeout.load(),
                free_polls, free_polls_active, early_false, dtor_before_finish);
   return 0;
}

} // namespace


int main( int argc, char** argv)
{
   if (argc < 5)
   {
      std::fprintf( stderr, "usage: %s singleton|managed <n> <rounds> forced|free\n", argv[ 0]);
      return 2;
   }
   const std::string  mode = argv[ 1];
   const int          n = std::atoi( argv[ 2]);
   const int          rounds = std::atoi( argv[ 3]);
   const bool         forced = std::string( argv[ 4]) == "forced";
   if (mode == "singleton")
      return run_singleton( n, rounds, forced);
   if (mode == "managed")
      return run_managed( n, rounds, forced ? 1 : std::string( argv[ 4]) == "early" ? 2 : 0);
   return 2;
}
