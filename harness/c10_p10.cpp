// capacity pairs [(30, 256), (256, 30), (256, 3)] (object / other object) of the C10/C11 harness
#include "c10_impl.hpp"
namespace c10 {
std::string run_30_256(const std::vector<std::string>& w) { return run<30, 256>(w); }
std::string run_256_30(const std::vector<std::string>& w) { return run<256, 30>(w); }
std::string run_256_3(const std::vector<std::string>& w) { return run<256, 3>(w); }
}
