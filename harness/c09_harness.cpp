// C09 harness: N threads, each constructs its own argument handler (container
// destinations with different list separators, checks, constraints) and evaluates
// its own command line; every thread's outcome is compared with the outcome of the
// same job run alone (sequentially, before the threads are started).
//
//   c09_harness <threads> <rounds>
//
// Built with -fsanitize=thread: ThreadSanitizer reports data races on library
// state; the harness itself shares nothing between the jobs but the start signal.
// Output: "threads=.. rounds=.. jobs=.. mismatches=.. first=<description>"
#include <atomic>
#include <unistd.h>
#include <cstdio>
#include <cstdlib>
#include <fstream>
#include <sys/stat.h>
#include <sstream>
#include <string>
#include <thread>
#include <vector>

#include "verif_hooks.hpp"
#include "celma/prog_args.hpp"
#include "celma/prog_args/eval_argument_string.hpp"
#include "celma/prog_args/detail/check_lower.hpp"
#include "celma/prog_args/detail/check_upper.hpp"
#include "celma/prog_args/detail/check_range.hpp"
#include "celma/prog_args/detail/check_values.hpp"
#include "celma/prog_args/detail/check_min_length.hpp"
#include "celma/prog_args/detail/cardinality_max.hpp"
#include "celma/prog_args/detail/format_uppercase.hpp"

namespace pa = celma::prog_args;

namespace {

const char  SEPS[] = { ',', ';', ':', '|', '+', '/', '#', '.', '=', '%', '@', '~', '!', '^', '&', '_' };

// the job of thread t in round r; everything it touches is local to the call
std::string job( int t, int r)
{
   const char  sep1 = SEPS[ (t + r) % 16];
   const char  sep2 = SEPS[ (t + r + 5) % 16];
   std::ostringstream  out, err, res;
   try
   {
      // every third job with verbose evaluation (the handler reports each argument it handles on its own stream)
      // every job reads the argument file of "its" program first ($HOME/.progargs/c09t<t>.pa, flag hfReadProgArg):
      // the file holds the number of the thread, a value that is known without running anything
      pa::Handler  ah( out, err, ((t + r) % 3 == 1 ? pa::Handler::hfVerboseArgs : 0) | pa::Handler::hfReadProgArg);
      std::vector< int>          ints;
      std::vector< std::string>  strs;
      std::vector< std::string>  upper;
      int          level = 0;
      int          count = 0;
      bool         flag = false;
      std::string  name;

      ah.addArgument( "i,ints", DEST_VAR( ints), "integer list")->setListSep( sep1)
         ->addCheck( pa::range( 0, 1000));
      ah.addArgument( "s,strs", DEST_VAR( strs), "string list")->setListSep( sep2)
         ->setCardinality( pa::cardinality_max( 20));
      ah.addArgument( "u,upper", DEST_VAR( upper), "upper-case list")->setListSep( sep1)
         ->addFormat( pa::uppercase());
      ah.addArgument( "l,level", DEST_VAR( level), "level")->addCheck( pa::lower( 1))
         ->addCheck( pa::upper( 50));
      ah.addArgument( "c,count", DEST_VAR( count), "count")->addCheck( pa::values( "1,2,3,5,8,13"))
         ->addConstraint( pa::requiresArg( "l,level"));
      ah.addArgument( "f,flag", DEST_VAR( flag), "flag");
      ah.addArgument( "n,name", DEST_VAR( name), "name")->setIsMandatory()
         ->addCheck( pa::minLength( 2));
      // handler constraints whose lists differ from thread to thread and in which the arguments used are not the
      // first entries: a constraint evaluation that keeps state outside the handler mixes up the lists
      bool  extra = false;
      ah.addArgument( "e,extra", DEST_VAR( extra), "extra flag");
      // a scalar destination with a value formatter (the formatted text is built per assignment)
      std::string  tag;
      ah.addArgument( "t,tag", DEST_VAR( tag), "tag")->addFormat( pa::uppercase());
      int  prog = -1;
      ah.addArgument( "p,prog", DEST_VAR( prog), "value from the program's argument file");
      ah.addConstraint( pa::all_of( (t + r) % 2 == 0 ? "i;n;l" : "l;i;n"));
      ah.addConstraint( pa::any_of( (t + r) % 3 == 0 ? "e;f;n" : "e;n"));
      ah.addConstraint( pa::one_of( (t + r) % 2 == 0 ? "e;f" : "f;e;n"));

      // the text contains every separator: split with the wrong one it gives other tokens
      std::string  ints_txt, strs_txt, upper_txt;
      for (int k = 0; k < 4; ++k)
      {
         if (k > 0) { ints_txt += sep1; strs_txt += sep2; upper_txt += sep1; }
         ints_txt += std::to_string( (t * 7 + r + k) % 1000);
         strs_txt += std::string( "p") + SEPS[ (t + r + k + 1) % 16] + "q" + std::to_string( k);
         upper_txt += std::string( "w") + std::to_string( t) + "x" + std::to_string( k);
      }
      // (a required argument has to follow the one that requires it)
      std::string  line = std::string( (t + r) % 3 == 0 ? "-c 5 " : "")
                          + "-i " + ints_txt + " --strs " + strs_txt + " -u " + upper_txt
                          + " -l " + std::to_string( 1 + (t + r) % 50)
                          + " -n thread" + std::to_string( t)
                          + " -t tag" + std::string( 1 + (t + r) % 5, static_cast< char>( 'a' + t % 26)) + "q" + std::to_string( t * 31 + r);
      if ((t + r) % 2 == 0) line += " -f";
      if ((t + r) % 7 == 6) line += " -l 99";          // violates the upper limit: rejected
      if ((t + r) % 11 == 10) line += " --unknown 1";  // unknown argument: rejected

      const std::string  progname = "c09t" + std::to_string( t);
      pa::evalArgumentString( ah, line, progname.c_str());
      if (prog != t)
         res << "FOREIGN-ARGUMENT-FILE(prog=" << prog << ") ";

      res << "ok ints=";
      for (int v : ints) res << v << ' ';
      res << "strs=";
      for (auto const& v : strs) res << '[' << v << ']';
      res << " upper=";
      for (auto const& v : upper) res << '[' << v << ']';
      res << " level=" << level << " count=" << count << " flag=" << flag << " name=" << name << " tag=" << tag;
   } catch (const std::exception& e)
   {
      res << "exception: " << e.what();
   }
   res << " out=" << out.str().size() << " err=" << err.str().size();
   return res.str();
}

} // namespace


int main( int argc, char** argv)
{
   if (argc < 3)
   {
      std::fprintf( stderr, "usage: %s <threads> <rounds>\n", argv[ 0]);
      return 2;
   }
   ::alarm( 240);     // a run that hangs (a lock that is never released) ends with SIGALRM
   const int  n = std::atoi( argv[ 1]);
   const int  rounds = std::atoi( argv[ 2]);
   // a private HOME with one argument file per thread (set before any thread exists)
   const char*  wd = ::getenv( "VERIF_WORK");
   const std::string  home = std::string( wd ? wd : ".") + "/c09home" + std::to_string( ::getpid());
   ::mkdir( home.c_str(), 0755);
   ::mkdir( (home + "/.progargs").c_str(), 0755);
   ::setenv( "HOME", home.c_str(), 1);
   for (int t = 0; t < n; ++t)
   {
      std::ofstream  f( home + "/.progargs/c09t" + std::to_string( t) + ".pa");
      f << "-p " << t << "\n";
   }
   long  mismatches = 0, jobs = 0, accepted = 0;
   std::string  first;
   for (int r = 0; r < rounds; ++r)
   {
      std::vector< std::string>  expect( n), got( n);
      for (int t = 0; t < n; ++t)
         expect[ t] = job( t, r);                 // sequential reference
      std::atomic< int>  arrived{ 0}, go{ 0};
      std::vector< std::thread>  th;
      for (int t = 0; t < n; ++t)
         th.emplace_back( [&, t]()
         {
            arrived.fetch_add( 1);
            while (go.load() == 0)
               std::this_thread::yield();
            got[ t] = job( t, r);
         });
      while (arrived.load() != n)
         std::this_thread::yield();
      go.store( 1);
      for (auto& x : th)
         x.join();
      for (int t = 0; t < n; ++t)
      {
         ++jobs;
         if (expect[ t].compare( 0, 2, "ok") == 0) ++accepted;
         if ((got[ t] != expect[ t]) || (got[ t].find( "FOREIGN-ARGUMENT-FILE") != std::string::npos)
             || (expect[ t].find( "FOREIGN-ARGUMENT-FILE") != std::string::npos))
         {
            ++mismatches;
            if (first.empty())
               first = "round " + std::to_string( r) + " thread " + std::to_string( t) + ": alone {"
                       + expect[ t] + "} concurrently {" + got[ t] + "}";
         }
      }
   }
   for (int t = 0; t < n; ++t)
      ::unlink( (home + "/.progargs/c09t" + std::to_string( t) + ".pa").c_str());
   ::rmdir( (home + "/.progargs").c_str());
   ::rmdir( home.c_str());
   for (auto& c : first) if (c == '\n') c = ' ';
   std::printf( "threads=%d rounds=%d jobs=%ld accepted=%ld mismatches=%ld first=%s\n", n, rounds, jobs,
                accepted, mismatches, first.empty() ? "-" : first.c_str());
   return 0;
}
