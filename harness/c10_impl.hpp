#pragma once
// Implementation harness for C10 and C11: runs scripted histories on the real
// celma::common::FixedString<L> from $VERIF_REPO/src.
//
// case line:  <id> <mode> <L> <init-hex> <other-hex> <op> <op> ...
//   mode A (C10): any argument values; after every step the state of the object
//                 (length(), strlen, content, well-formedness verdict) is printed
//   mode D (C11): the same operation is also applied to a real std::string
//                 holding the same text; printed are both results and whether
//                 they are equal after cutting the std::string at L.  A step
//                 whose std::string counterpart throws (or that is outside the
//                 documented domain) is printed as "ood" and not executed.
//
// Every FixedString lives in a malloc block of exactly sizeof(FixedString<L>)
// bytes (ASan red zones on both sides, byte exact), C string arguments live in
// malloc blocks of exactly strlen+1 bytes.  Padding bytes of the object are
// pre-filled with a pattern and compared after every step.
// Cases run in a forked child; when a sanitizer (or std::terminate, or a
// signal) kills the child the parent prints "<id> CRASH:<kind>" and continues
// with the next case in a new child.
#include <algorithm>
#include <cerrno>
#include <climits>
#include <cwchar>
#include <cstdarg>
#include <iostream>
#include <iterator>
#include <limits>
#include <csignal>
#include <cstddef>
#include <memory>
#include <new>
#include <stdexcept>
#include <string>
#include <utility>
#include <sys/mman.h>
#include <sys/wait.h>
#include <unistd.h>
#include "case_io.hpp"
#define private public
#include "celma/common/fixed_string.hpp"
#undef private

namespace c10 {

constexpr size_t NPOS = std::string::npos;
constexpr size_t BIG = 1048576;   // larger repeat counts are outside the C11 domain

inline uint64_t num(const std::string& s)
{
   if (s == "n") return NPOS;
   return std::stoull(s);
}
// set when an argument of the running case carries a NUL character (then strlen may differ from length())
inline bool& nulSeen() { static bool b = false; return b; }
inline char chr(const std::string& s) { const char c = static_cast<char>(std::stoi(s, nullptr, 16)); if (c == 0) nulSeen() = true; return c; }
inline std::string ustr(const std::string& hex) { std::string r = vf::unhexs(hex); if (r.find('\0') != std::string::npos) nulSeen() = true; return r; }
inline std::string unum(size_t v) { return v == NPOS ? std::string("npos") : std::to_string(v); }
inline std::string sgn(int v) { return v < 0 ? "-1" : (v > 0 ? "1" : "0"); }
inline std::string bl(bool b) { return b ? "t" : "f"; }
inline std::string hexc(char c) { return vf::hex(reinterpret_cast<const uint8_t*>(&c), 1); }

// C string in a heap block of exactly strlen+1 bytes
struct CStr
{
   char* p; size_t n;
   explicit CStr(const std::string& hex)
   {
      const std::string s = vf::unhexs(hex);
      n = std::strlen(s.c_str());
      p = static_cast<char*>(std::malloc(n + 1));
      std::memcpy(p, s.c_str(), n + 1);
   }
   ~CStr() { std::free(p); }
   CStr(const CStr&) = delete;
};

struct OutOfDomain {};

// index of the running step, shared with the parent process (set by main)
extern volatile int* g_step;

template<size_t L> struct Obj
{
   using FS = celma::common::FixedString<L>;
   unsigned char* mem;
   FS* p;
   std::vector<unsigned char> pad;   // snapshot of the padding bytes
   static constexpr size_t lenOff = offsetof(FS, mLength);
   static constexpr size_t lenSz = sizeof(typename FS::size_type);

   Obj() : mem(static_cast<unsigned char*>(std::malloc(sizeof(FS)))), p(nullptr)
   {
      std::memset(mem, 0xA5, sizeof(FS));
   }
   ~Obj() { if (p) p->~FS(); std::free(mem); }
   static bool isPad(size_t i) { return (i >= L + 1 && i < lenOff) || i >= lenOff + lenSz; }
   void snap()
   {
      pad.clear();
      for (size_t i = 0; i < sizeof(FS); ++i) if (isPad(i)) pad.push_back(mem[i]);
   }
   template<typename... A> void construct(A&&... a)
   {
      if (p) p->~FS();
      std::memset(mem, 0xA5, sizeof(FS));
      p = new (mem) FS(std::forward<A>(a)...);
      snap();
   }
   // well-formedness of the object as the property states it
   std::string verdict() const
   {
      size_t k = 0;
      for (size_t i = 0; i < sizeof(FS); ++i)
         if (isPad(i)) { if (pad[k] != mem[i]) return "BAD:pad"; ++k; }
      const size_t len = p->mLength;
      if (len > L) return "BAD:len";
      if (p->mString[len] != '\0') return "BAD:term";
      return "ok";
   }
   size_t cstrlen() const { return ::strnlen(p->mString, L + 1); }
   std::string content() const
   {
      const size_t len = p->mLength;
      return vf::hex(reinterpret_cast<const uint8_t*>(p->mString), std::min(len, L + 1));
   }
   std::string raw() const { return vf::hex(reinterpret_cast<const uint8_t*>(p->mString), L + 1); }
   std::string state() const
   {
      std::string v = verdict();
      if (v == "ok" && !nulSeen() && cstrlen() != p->mLength)
         v = "BAD:strlen";
      return std::to_string(static_cast<size_t>(p->mLength)) + ";" + std::to_string(cstrlen()) + ";"
         + content() + ";" + v;
   }
};

// L = capacity of the object, S = capacity of the other object (each lives in its own exact-size heap block)
template<size_t L, size_t S> std::string run(const std::vector<std::string>& w)
{
   using FS = celma::common::FixedString<L>;
   using FSo = celma::common::FixedString<S>;
   using CIt = typename FS::const_iterator;
   const bool D = w[1] == "D";
   nulSeen() = false;
   Obj<L> F;
   Obj<S> O;
   {
      CStr a(w[3]), b(w[4]);
      F.construct(a.p);
      O.construct(b.p);
   }
   std::string prop, intl;
   for (size_t wi = 5; wi < w.size(); ++wi)
   {
      std::vector<std::string> a;
      { std::string cur; for (char c : w[wi]) { if (c == ':') { a.push_back(cur); cur.clear(); } else cur += c; } a.push_back(cur); }
      const std::string& n = a[0];
      if (g_step) *g_step = static_cast<int>(wi - 5);
      FS& f = *F.p;
      FSo& o = *O.p;
      std::string s, os;          // std::string mirrors (mode D)
      if (D) { s = f.str(); os = o.str(); }
      const size_t len = f.length();
      const size_t olen = o.length();
      std::string rF = "_", rS = "_";
      bool ood = false;
      bool swapped = false;
      // domain requirement (mode D only)
      auto REQ = [&](bool c) { if (D && !c) throw OutOfDomain{}; };
      // run the std::string counterpart (mode D only); an exception means "outside the domain"
#define STD(stmt) do { if (D) { try { stmt; } catch (const std::out_of_range&) { throw OutOfDomain{}; } \
                                 catch (const std::length_error&) { throw OutOfDomain{}; } } } while (0)
      try
      {
         if (n == "asg_c") { CStr c(a[1]); STD(s.assign(c.p)); f.assign(c.p); }
         else if (n == "asg_s") { std::string x = ustr(a[1]); STD(s.assign(x)); f.assign(x); }
         else if (n == "asg_fs") { STD(s.assign(os)); f.assign(o); }
         else if (n == "ctor_c") { CStr c(a[1]); STD(s = std::string(c.p)); F.construct(c.p); }
         else if (n == "ctor_s") { std::string x = ustr(a[1]); STD(s = x); F.construct(x); }
         // operations that exist only between objects of the same type are "ood" for different capacities
#define SAME_ONLY(...) do { if constexpr (L == S) { __VA_ARGS__; } else { throw OutOfDomain{}; } } while (0)
         else if (n == "ctor_mv") { SAME_ONLY(STD(s = os); F.construct(std::move(o))); }
         else if (n == "ctor_cp") { SAME_ONLY(STD(s = os); F.construct(static_cast<const FS&>(o))); }
         // the converting constructor FixedString( const FixedString< S>&) is chosen only for S != L
         else if (n == "ctor_fs") { if constexpr (L != S) { STD(s = os); F.construct(static_cast<const FSo&>(o)); } else { throw OutOfDomain{}; } }
         else if (n == "ins_nc") { size_t i = num(a[1]), c = num(a[2]); char ch = chr(a[3]); REQ(c <= BIG); STD(s.insert(i, c, ch)); f.insert(i, c, ch); }
         else if (n == "ins_pc") { size_t i = num(a[1]); CStr c(a[2]); size_t k = num(a[3]); REQ(k <= c.n); if (k > c.n + 1) throw OutOfDomain{}; if (k > c.n) nulSeen() = true; STD(s.insert(i, c.p, k)); f.insert(i, c.p, k); }
         else if (n == "ins_c") { size_t i = num(a[1]); CStr c(a[2]); STD(s.insert(i, c.p)); f.insert(i, c.p); }
         else if (n == "ins_s") { size_t i = num(a[1]); std::string x = ustr(a[2]); STD(s.insert(i, x)); f.insert(i, x); }
         else if (n == "ins_ss") { size_t i = num(a[1]); std::string x = ustr(a[2]); size_t is = num(a[3]), k = num(a[4]); STD(s.insert(i, x, is, k)); f.insert(i, x, is, k); }
         else if (n == "ins_fs") { size_t i = num(a[1]); STD(s.insert(i, os)); f.insert(i, o); }
         else if (n == "ins_fss") { size_t i = num(a[1]), is = num(a[2]), k = num(a[3]); STD(s.insert(i, os, is, k)); f.insert(i, o, is, k); }
         else if (n == "ins_it") { size_t p = num(a[1]); char ch = chr(a[2]); REQ(p < len); STD(s.insert(s.begin() + p, ch));
                                   auto it = f.insert(CIt(&f, p), ch); if (!D) rF = (it == f.end()) ? "end" : std::to_string(it - f.begin()); }
         else if (n == "ins_itn") { size_t p = num(a[1]), c = num(a[2]); char ch = chr(a[3]); REQ(p < len && c <= BIG); STD(s.insert(s.begin() + p, c, ch));
                                    auto it = f.insert(CIt(&f, p), c, ch); if (!D) rF = (it == f.end()) ? "end" : std::to_string(it - f.begin()); }
         else if (n == "erase") { size_t i = num(a[1]), c = num(a[2]); STD(s.erase(i, c)); f.erase(i, c); }
         else if (n == "erase_it") { size_t p = num(a[1]); REQ(p < len); STD(s.erase(s.begin() + p));
                                     auto it = f.erase(CIt(&f, p)); if (!D) rF = (it == f.end()) ? "end" : std::to_string(it - f.begin()); }
         else if (n == "erase_itr") { size_t p = num(a[1]), q = num(a[2]); REQ(p <= q && q <= len && p < len); STD(s.erase(s.begin() + p, s.begin() + q));
                                      auto it = f.erase(CIt(&f, p), CIt(&f, q)); if (!D) rF = (it == f.end()) ? "end" : std::to_string(it - f.begin()); }
         else if (n == "push") { char ch = chr(a[1]); STD(s.push_back(ch)); f.push_back(ch); }
         else if (n == "pop") { REQ(len > 0); STD(s.pop_back()); f.pop_back(); }
         else if (n == "app_nc") { size_t c = num(a[1]); char ch = chr(a[2]); REQ(c <= BIG); STD(s.append(c, ch)); f.append(c, ch); }
         else if (n == "pe_ch") { char ch = chr(a[1]); STD(s += ch); f += ch; }
         else if (n == "app_s") { std::string x = ustr(a[1]); STD(s.append(x)); f.append(x); }
         else if (n == "app_fs") { STD(s.append(os)); f.append(o); }
         else if (n == "app_ss") { std::string x = ustr(a[1]); size_t p = num(a[2]), c = num(a[3]); STD(s.append(x, p, c)); f.append(x, p, c); }
         else if (n == "app_fss") { size_t p = num(a[1]), c = num(a[2]); STD(s.append(os, p, c)); f.append(o, p, c); }
         else if (n == "app_pc") { CStr c(a[1]); size_t k = num(a[2]); REQ(k <= c.n); STD(s.append(c.p, k)); f.append(c.p, k); }
         else if (n == "app_c") { CStr c(a[1]); STD(s.append(c.p)); f.append(c.p); }
         else if (n == "app_it") { size_t p = num(a[1]), q = num(a[2]); if (!(p <= q && q <= olen)) throw OutOfDomain{};
                                   SAME_ONLY(STD(s.append(os.begin() + p, os.begin() + q)); f.append(CIt(&o, p), CIt(&o, q))); }
         else if (n == "sprintf") { std::string x = ustr(a[1]); STD(s = std::string(x.c_str())); f.sprintf("%s", x.c_str()); }
         else if (n == "sprintf_lc" || n == "sprintf_wide")
         {
            // sprintf whose vsnprintf call fails: a wide character that cannot be converted in the "C"
            // locale, or field widths of more than INT_MAX characters in total.  Whether the C library
            // really failed is seen through errno; if it did not, the step is reported as "nofire".
            std::string x = ustr(a[1]);
            x = std::string(x.c_str());
            errno = 0;
            if (n == "sprintf_lc") f.sprintf((x + "%lc").c_str(), static_cast<wint_t>(0x20ac));
            else f.sprintf((x + "%*d%*d").c_str(), INT_MAX, 1, INT_MAX, 2);
            const bool fired = (errno == EILSEQ) || (errno == EOVERFLOW);
            if (!fired)
            {
               if (!prop.empty()) { prop += ' '; intl += ' '; }
               prop += "nofire"; intl += "-";
               continue;
            }
            STD(s.clear());
         }
         else if (n == "rep_fs") { size_t p = num(a[1]), c = num(a[2]); STD(s.replace(p, c, os)); f.replace(p, c, o); }
         else if (n == "rep_s") { size_t p = num(a[1]), c = num(a[2]); std::string x = ustr(a[3]); STD(s.replace(p, c, x)); f.replace(p, c, x); }
         else if (n == "rep_fss") { size_t p = num(a[1]), c = num(a[2]), p2 = num(a[3]), c2 = num(a[4]); STD(s.replace(p, c, os, p2, c2)); f.replace(p, c, o, p2, c2); }
         else if (n == "rep_ss") { size_t p = num(a[1]), c = num(a[2]); std::string x = ustr(a[3]); size_t p2 = num(a[4]), c2 = num(a[5]); STD(s.replace(p, c, x, p2, c2)); f.replace(p, c, x, p2, c2); }
         else if (n == "rep_c") { size_t p = num(a[1]), c = num(a[2]); CStr x(a[3]); STD(s.replace(p, c, x.p)); f.replace(p, c, x.p); }
         else if (n == "rep_pc") { size_t p = num(a[1]), c = num(a[2]); CStr x(a[3]); size_t c2 = num(a[4]); REQ(c2 <= x.n); STD(s.replace(p, c, x.p, c2)); f.replace(p, c, x.p, c2); }
         else if (n == "rep_nc") { size_t p = num(a[1]), c = num(a[2]), c2 = num(a[3]); char ch = chr(a[4]); REQ(c2 <= BIG); STD(s.replace(p, c, c2, ch)); f.replace(p, c, c2, ch); }
         else if (n == "swap") { SAME_ONLY(STD(std::swap(s, os)); f.swap(o); swapped = true); }
         else if (n == "clear") { STD(s.clear()); f.clear(); }
         // ---------------- observers
         else if (n == "cmp_fs") { STD(rS = sgn(s.compare(os))); rF = sgn(f.compare(o)); }
         else if (n == "cmp_s") { std::string x = ustr(a[1]); STD(rS = sgn(s.compare(x))); rF = sgn(f.compare(x)); }
         else if (n == "cmp_c") { CStr c(a[1]); STD(rS = sgn(s.compare(c.p))); rF = sgn(f.compare(c.p)); }
         else if (n == "cmpp_fs") { size_t p = num(a[1]), c = num(a[2]); STD(rS = sgn(s.compare(p, c, os))); rF = sgn(f.compare(p, c, o)); }
         else if (n == "cmpp_s") { size_t p = num(a[1]), c = num(a[2]); std::string x = ustr(a[3]); STD(rS = sgn(s.compare(p, c, x))); rF = sgn(f.compare(p, c, x)); }
         else if (n == "cmpp_c") { size_t p = num(a[1]), c = num(a[2]); CStr x(a[3]); STD(rS = sgn(s.compare(p, c, x.p))); rF = sgn(f.compare(p, c, x.p)); }
         else if (n == "cmppp_fs") { size_t p = num(a[1]), c = num(a[2]), p2 = num(a[3]), c2 = num(a[4]); STD(rS = sgn(s.compare(p, c, os, p2, c2))); rF = sgn(f.compare(p, c, o, p2, c2)); }
         else if (n == "cmppp_s") { size_t p = num(a[1]), c = num(a[2]); std::string x = ustr(a[3]); size_t p2 = num(a[4]), c2 = num(a[5]); STD(rS = sgn(s.compare(p, c, x, p2, c2))); rF = sgn(f.compare(p, c, x, p2, c2)); }
         else if (n == "cmppp_c") { size_t p = num(a[1]), c = num(a[2]); CStr x(a[3]); size_t c2 = num(a[4]); REQ(c2 <= x.n); STD(rS = sgn(s.compare(p, c, x.p, c2))); rF = sgn(f.compare(p, c, x.p, c2)); }
         else if (n == "sw_fs") { STD(rS = bl(s.compare(0, os.size(), os) == 0)); rF = bl(f.starts_with(o)); }
         else if (n == "sw_s") { std::string x = ustr(a[1]); STD(rS = bl(s.compare(0, x.size(), x) == 0)); rF = bl(f.starts_with(x)); }
         else if (n == "sw_c") { CStr c(a[1]); STD(rS = bl(s.compare(0, c.n, c.p) == 0)); rF = bl(f.starts_with(c.p)); }
         else if (n == "sw_ch") { char ch = chr(a[1]); STD(rS = bl(!s.empty() && s.front() == ch)); rF = bl(f.starts_with(ch)); }
         else if (n == "ew_fs") { STD(rS = bl(s.size() >= os.size() && s.compare(s.size() - os.size(), NPOS, os) == 0)); rF = bl(f.ends_with(o)); }
         else if (n == "ew_s") { std::string x = ustr(a[1]); STD(rS = bl(s.size() >= x.size() && s.compare(s.size() - x.size(), NPOS, x) == 0)); rF = bl(f.ends_with(x)); }
         else if (n == "ew_c") { CStr c(a[1]); STD(rS = bl(s.size() >= c.n && s.compare(s.size() - c.n, NPOS, c.p) == 0)); rF = bl(f.ends_with(c.p)); }
         else if (n == "ew_ch") { char ch = chr(a[1]); STD(rS = bl(!s.empty() && s.back() == ch)); rF = bl(f.ends_with(ch)); }
         else if (n == "ct_fs") { REQ(olen > 0); STD(rS = bl(s.find(os) != NPOS)); rF = bl(f.contains(o)); }
         else if (n == "ct_s") { std::string x = ustr(a[1]); REQ(!x.empty()); STD(rS = bl(s.find(x) != NPOS)); rF = bl(f.contains(x)); }
         else if (n == "ct_c") { CStr c(a[1]); REQ(c.n > 0); STD(rS = bl(s.find(c.p) != NPOS)); rF = bl(f.contains(c.p)); }
         else if (n == "ct_ch") { char ch = chr(a[1]); STD(rS = bl(s.find(ch) != NPOS)); rF = bl(f.contains(ch)); }
         else if (n == "substr") { size_t p = num(a[1]), c = num(a[2]); STD(rS = vf::hex(s.substr(p, c))); rF = vf::hex(f.substr(p, c)); }
         else if (n == "copy")
         {
            size_t c = num(a[1]), p = num(a[2]);
            // destination block with exactly the room the contract asks for
            const size_t room = p < len ? std::min(c, len - p) : 0;
            std::unique_ptr<char[]> d1(new char[room ? room : 1]), d2(new char[room ? room : 1]);
            if (D) { try { size_t r = s.copy(d2.get(), c, p); rS = std::to_string(r) + "," + vf::hex(reinterpret_cast<uint8_t*>(d2.get()), r); } catch (const std::out_of_range&) { throw OutOfDomain{}; } }
            size_t r = f.copy(d1.get(), c, p);
            rF = std::to_string(r) + "," + vf::hex(reinterpret_cast<uint8_t*>(d1.get()), std::min(r, room));
         }
         else if (n == "at") { size_t i = num(a[1]); STD(rS = hexc(s.at(i))); try { rF = hexc(f.at(i)); } catch (const std::out_of_range&) { rF = "E:out_of_range"; } }
         else if (n == "front") { REQ(len > 0); STD(rS = hexc(s.front())); rF = hexc(f.front()); }
         else if (n == "back") { REQ(len > 0); STD(rS = hexc(s.back())); rF = hexc(f.back()); }
         else if (n == "len") { STD(rS = std::to_string(std::min(s.size(), L))); rF = std::to_string(f.length()); }
         else if (n == "empty") { STD(rS = bl(s.empty())); rF = bl(f.empty()); }
         else if (n == "str") { STD(rS = vf::hex(s)); rF = vf::hex(f.str()); }
         else if (n == "eq") { STD(rS = bl(s == os)); rF = bl(f == o); }
         else if (n == "ne") { STD(rS = bl(s != os)); rF = bl(f != o); }
         else if (n == "itf") { std::string r; for (auto it = f.begin(); it != f.end(); ++it) r += *it; rF = vf::hex(r);
                                if (D) { std::string q; for (auto it = s.begin(); it != s.end(); ++it) q += *it; rS = vf::hex(q); } }
         else if (n == "citf") { std::string r; for (auto it = f.cbegin(); it != f.cend(); it++) r += *it; rF = vf::hex(r);
                                 if (D) { std::string q; for (auto it = s.cbegin(); it != s.cend(); it++) q += *it; rS = vf::hex(q); } }
         else if (n == "itr") { std::string r; for (auto it = f.rbegin(); it != f.rend(); ++it) r += *it; rF = vf::hex(r);
                                if (D) { std::string q; for (auto it = s.rbegin(); it != s.rend(); ++it) q += *it; rS = vf::hex(q); } }
         else if (n == "citr") { std::string r; for (auto it = f.crbegin(); it != f.crend(); it++) r += *it; rF = vf::hex(r);
                                 if (D) { std::string q; for (auto it = s.crbegin(); it != s.crend(); it++) q += *it; rS = vf::hex(q); } }
         // ---------------- iterator stepping: it|rit : pos : inc|dec|add|sub : value
         else if (n == "it" || n == "rit")
         {
            const size_t pos = num(a[1]), v = num(a[3]);
            const std::string& kd = a[2];
            const bool rev = n == "rit";
            // position of the std iterator as offset from begin() / rbegin(); end = len
            const size_t off = pos >= len ? len : (rev ? len - 1 - pos : pos);
            if (D)
            {
               size_t noff = 0;
               if (kd == "inc") { REQ(off < len); noff = off + 1; }
               else if (kd == "dec") { REQ(off > 0); noff = off - 1; }
               else if (kd == "add") { REQ(v <= len - off); noff = off + v; }
               else { REQ(v <= off); noff = off - v; }
               if (rev) { auto it = s.rbegin() + off; if (kd == "inc") ++it; else if (kd == "dec") --it; else if (kd == "add") it += v; else it -= v;
                          const size_t r = it - s.rbegin(); if (r != noff) return std::string("harness-error"); rS = (r == len) ? "end" : std::to_string(len - 1 - r) + "," + hexc(*it); }
               else { auto it = s.begin() + off; if (kd == "inc") ++it; else if (kd == "dec") --it; else if (kd == "add") it += v; else it -= v;
                      const size_t r = it - s.begin(); if (r != noff) return std::string("harness-error"); rS = (r == len) ? "end" : std::to_string(r) + "," + hexc(*it); }
            }
            size_t idx; std::string dr;
            if (rev) { typename FS::reverse_iterator it(&f, pos); if (kd == "inc") ++it; else if (kd == "dec") --it; else if (kd == "add") it += v; else it -= v;
                       idx = it.mIndex; try { dr = hexc(*it); } catch (const std::range_error&) { dr = "E"; } }
            else { typename FS::iterator it(&f, pos); if (kd == "inc") ++it; else if (kd == "dec") --it; else if (kd == "add") it += v; else it -= v;
                   idx = it.mIndex; try { dr = hexc(*it); } catch (const std::range_error&) { dr = "E"; } }
            rF = (idx == NPOS) ? std::string("end") : std::to_string(idx) + "," + dr;
         }
         // ---------------- find family: <fam>_<overload>
         else if (n.size() > 2 && n[0] == 'F')
         {
            // F<fam>_<ovl> : fam in find rfind ffo ffno flo flno ; ovl fs | s:S | pc:S:cnt | c:S | ch:ch ; last arg = pos
            const size_t us = n.find('_');
            const std::string fam = n.substr(1, us - 1), ov = n.substr(us + 1);
            const bool rev = fam == "rfind" || fam == "flo" || fam == "flno";
            const size_t pos = num(a.back());
            REQ(pos < len || (rev ? pos == NPOS : pos == 0));
            size_t r = 0, q = 0;
#define FAM(call_f, call_s) do { \
               if (fam == "find") { r = f.find call_f; if (D) q = s.find call_s; } \
               else if (fam == "rfind") { r = f.rfind call_f; if (D) q = s.rfind call_s; } \
               else if (fam == "ffo") { r = f.find_first_of call_f; if (D) q = s.find_first_of call_s; } \
               else if (fam == "ffno") { r = f.find_first_not_of call_f; if (D) q = s.find_first_not_of call_s; } \
               else if (fam == "flo") { r = f.find_last_of call_f; if (D) q = s.find_last_of call_s; } \
               else if (fam == "flno") { r = f.find_last_not_of call_f; if (D) q = s.find_last_not_of call_s; } \
               else return std::string("unsupported-op:") + n; } while (0)
            if (ov == "fs") { if constexpr (L == S) { REQ(olen > 0); FAM((o, pos), (os, pos)); } else { throw OutOfDomain{}; } }
            else if (ov == "s") { std::string x = ustr(a[1]); REQ(!x.empty()); FAM((x, pos), (x, pos)); }
            else if (ov == "pc") { CStr c(a[1]); size_t k = num(a[2]); REQ(k > 0 && k <= c.n && pos < len); if (k > c.n + 1) throw OutOfDomain{}; FAM((c.p, pos, k), (c.p, pos, k)); }
            else if (ov == "c") { CStr c(a[1]); REQ(c.n > 0); FAM((c.p, pos), (c.p, pos)); }
            else if (ov == "ch") { char ch = chr(a[1]); FAM((ch, pos), (ch, pos)); }
            else return std::string("unsupported-op:") + n;
            rF = unum(r); if (D) rS = unum(q);
         }
         else return std::string("unsupported-op:") + n;
      } catch (const OutOfDomain&)
      {
         ood = true;
      }
      if (!prop.empty()) { prop += ' '; intl += ' '; }
      if (ood) { prop += "ood"; intl += "-"; continue; }
      if (D)
      {
         const std::string cF = vf::hex(F.p->str());
         const std::string cS = vf::hex(s.substr(0, L));
         if (swapped) { rF = "o=" + vf::hex(O.p->str()); rS = "o=" + vf::hex(os.substr(0, S)); }
         prop += rF + ";" + cF + "|" + rS + ";" + cS + "|" + ((rF == rS && cF == cS) ? "eq" : "NE") + ";" + F.verdict();
      } else
      {
         if (swapped) rF = "o=" + O.state();
         prop += rF + ";" + F.state();
      }
      intl += F.raw() + "/" + O.raw();
   }
   return prop + " ## " + intl;
}

} // namespace c10
