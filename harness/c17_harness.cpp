// Implementation harness for C17: celma::format::TextBlock from /repo's working tree.
// case:   <id> <indent> <width> <indentFirst 0|1> <text as hex | ->
// result: <output as hex | -> ##
#include <algorithm>
#include <iomanip>
#include <sstream>
#include <stdexcept>
#include <string>
#include "case_io.hpp"
#include "celma/format/text_block.hpp"

namespace {

std::string run_case(const std::vector<std::string>& w)
{
   if (w.size() != 5) return "unsupported";
   const int indent = std::stoi(w[1]);
   const int width = std::stoi(w[2]);
   const bool first = w[3] == "1";
   const std::string txt = vf::unhexs(w[4]);
   std::ostringstream oss;
   try
   {
      celma::format::TextBlock tb(indent, width, first);
      tb.format(oss, txt);
   } catch (const std::exception& e)
   {
      return std::string("E:") + e.what();
   }
   const std::string out = oss.str();
   // the same text on a stream in the state in which the usage code leaves its stream (left adjustment, another
   // fill character): indentation and words must not depend on the formatting state of the caller's stream
   std::ostringstream oss2;
   oss2 << std::left;
   oss2.fill('*');
   try
   {
      celma::format::TextBlock tb(indent, width, first);
      tb.format(oss2, txt);
   } catch (const std::exception& e)
   {
      return vf::hex(out) + "!stream-state:E ##";
   }
   if (oss2.str() != out) return vf::hex(out) + "!stream-state:" + vf::hex(oss2.str()) + " ##";
   return vf::hex(out) + " ##";
}

} // namespace

int main(int argc, char** argv) { return vf::main_loop(argc, argv, run_case); }
