// Implementation harness for C17: celma::format::TextBlock from /repo's working tree.
// case:   <id> <indent> <width> <indentFirst 0|1> <text as hex | ->
// result: <output as hex | -> ##
#include <algorithm>
#include <sstream>
#include <stdexcept>
#include <string>
#include "case_io.hpp"
#include "celma/format/text_block.hpp"

namespace {

std::string run_case(const std::vector<std::string>& w)
{
   if (w.size() != 5) return "unsupported";
   const int indent = std::stoi(w[1]);
   const int width = std::stoi(w[2]);
   const bool first = w[3] == "1";
   const std::string txt = vf::unhexs(w[4]);
   std::ostringstream oss;
   try
   {
      celma::format::TextBlock tb(indent, width, first);
      tb.format(oss, txt);
   } catch (const std::exception& e)
   {
      return std::string("E:") + e.what();
   }
   const std::string out = oss.str();
   return vf::hex(out) + " ##";
}

} // namespace

int main(int argc, char** argv) { return vf::main_loop(argc, argv, run_case); }
