// capacities [3, 4] (both objects) of the C10/C11 harness
#include "c10_impl.hpp"
namespace c10 {
std::string run_3_3(const std::vector<std::string>& w) { return run<3, 3>(w); }
std::string run_4_4(const std::vector<std::string>& w) { return run<4, 4>(w); }
}
