// capacities [256, 300] of the C10/C11 harness
#include "c10_impl.hpp"
namespace c10 {
std::string run_256(const std::vector<std::string>& w) { return run<256>(w); }
std::string run_300(const std::vector<std::string>& w) { return run<300>(w); }
}
