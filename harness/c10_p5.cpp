// capacities [256, 300] (both objects) of the C10/C11 harness
#include "c10_impl.hpp"
namespace c10 {
std::string run_256_256(const std::vector<std::string>& w) { return run<256, 256>(w); }
std::string run_300_300(const std::vector<std::string>& w) { return run<300, 300>(w); }
}
