// capacity pairs [(255, 256), (256, 255)] (object / other object) of the C10/C11 harness
#include "c10_impl.hpp"
namespace c10 {
std::string run_255_256(const std::vector<std::string>& w) { return run<255, 256>(w); }
std::string run_256_255(const std::vector<std::string>& w) { return run<256, 255>(w); }
}
