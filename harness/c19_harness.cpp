// Implementation harness for C19: runs scripted histories on the real
// celma::common::ReadBuffer<N,P> / WriteBuffer<N,P> from /repo's working tree.
#include <algorithm>
#include <memory>
#include <stdexcept>
#include <utility>
#include "case_io.hpp"
#define private public
#include "celma/common/read_buffer.hpp"
#include "celma/common/write_buffer.hpp"
#undef private

namespace {

struct Starved {};

template<size_t N> class TestRB: public celma::common::ReadBuffer<N, celma::common::ReadCountPolicy>
{
public:
   std::vector<uint8_t> stream; size_t pos = 0;
   std::vector<size_t> chunks; size_t ci = 0;
   std::vector<std::pair<size_t, size_t>> reqs;
protected:
   size_t readData(unsigned char* data, size_t len) override
   {
      if (ci >= chunks.size()) throw Starved{};
      const size_t k = std::min(len, std::min(chunks[ci++], stream.size() - pos));
      reqs.emplace_back(static_cast<size_t>(data - this->mpBuffer.get()), len);
      if (k > 0) std::memcpy(data, stream.data() + pos, k);
      pos += k;
      return k;
   }
};

template<size_t N> std::string runR(const std::vector<std::string>& w)
{
   TestRB<N> rb;
   rb.stream = vf::unhex(w[3]);
   for (auto& c : vf::split(w[4], ',')) rb.chunks.push_back(std::stoull(c));
   std::string prop, intl;
   for (auto& o : vf::split(w[5], ','))
   {
      const bool nonnull = o[0] != 'z';   // n: uint8_t*, p: uint16_t*, q: uint32_t*, r: double* (the length is in bytes)
      const size_t len = std::stoull(o.substr(1));
      // destination of exactly len bytes on the heap: ASan sees any overrun
      std::unique_ptr<uint8_t[]> dst(new uint8_t[len ? len : 1]);
      rb.reqs.clear();
      if (!prop.empty()) { prop += ' '; intl += ' '; }
      try
      {
         if (o[0] == 'p') rb.get(reinterpret_cast<uint16_t*>(dst.get()), len);
         else if (o[0] == 'q') rb.get(reinterpret_cast<uint32_t*>(dst.get()), len);
         else if (o[0] == 'r') rb.get(reinterpret_cast<double*>(dst.get()), len);
         else rb.get(nonnull ? dst.get() : static_cast<uint8_t*>(nullptr), len);
         prop += "G:" + vf::hex(dst.get(), len);
         intl += "[";
         for (size_t i = 0; i < rb.reqs.size(); ++i)
            intl += (i ? ";" : "") + std::to_string(rb.reqs[i].first) + ":" + std::to_string(rb.reqs[i].second);
         intl += "]";
      } catch (const Starved&)
      {
         prop += "F:starved"; intl += "[]";
         break;
      } catch (const std::runtime_error&)
      {
         prop += "E:runtime_error"; intl += "[]";
      } catch (const std::exception&)
      {
         prop += "E:other"; intl += "[]";
      }
   }
   return prop + " ## " + intl;
}

template<size_t N> class TestWB: public celma::common::WriteBuffer<N, celma::common::WriteCountPolicy>
{
public:
   mutable std::vector<std::vector<uint8_t>> sink;
   mutable bool failNext = false;     // the sink refuses the next write (once)
protected:
   void writeData(const unsigned char* const data, size_t len) const override
   {
      if (failNext) { failNext = false; throw std::runtime_error("sink refuses the data"); }
      sink.emplace_back(data, data + len);
   }
};

template<size_t N> std::string runW(const std::vector<std::string>& w)
{
   TestWB<N> wb;
   std::string prop, intl;
   for (auto& o0 : vf::split(w[3], ','))
   {
      if (!prop.empty()) { prop += ' '; intl += ' '; }
      const size_t before = wb.sink.size();
      // x<op>: the sink throws on the first write of this operation
      const std::string o = o0[0] == 'x' ? o0.substr(1) : o0;
      wb.failNext = o0[0] == 'x';
      try
      {
         if (o[0] == 'a')
         {
            auto blk = vf::unhex(o.substr(1));
            // source block of exactly its length on the heap
            std::unique_ptr<uint8_t[]> src(new uint8_t[blk.size() ? blk.size() : 1]);
            if (!blk.empty()) std::memcpy(src.get(), blk.data(), blk.size());
            wb.append(src.get(), blk.size());
         } else if (o[0] == 'b' || o[0] == 'c' || o[0] == 'd')
         {
            // the same bytes handed over through a pointer to a wider type (the length is in bytes)
            auto blk = vf::unhex(o.substr(1));
            std::unique_ptr<uint8_t[]> src(new uint8_t[blk.size() ? blk.size() : 1]);
            if (!blk.empty()) std::memcpy(src.get(), blk.data(), blk.size());
            if (o[0] == 'b') wb.append(reinterpret_cast<const uint16_t*>(src.get()), blk.size());
            else if (o[0] == 'c') wb.append(reinterpret_cast<const uint32_t*>(src.get()), blk.size());
            else wb.append(reinterpret_cast<const double*>(src.get()), blk.size());
         } else if (o[0] == 'n')
         {
            wb.append(static_cast<const uint8_t*>(nullptr), std::stoull(o.substr(1)));
         } else
         {
            wb.flush();
         }
         std::vector<uint8_t> delta; std::string blocks;
         for (size_t i = before; i < wb.sink.size(); ++i)
         {
            delta.insert(delta.end(), wb.sink[i].begin(), wb.sink[i].end());
            blocks += (i > before ? ";" : "") + vf::hex(wb.sink[i]);
         }
         prop += "ok:" + std::to_string(wb.buffered()) + ":" + vf::hex(delta);
         intl += "[" + blocks + "]";
      } catch (const std::runtime_error&)
      {
         prop += "E:runtime_error"; intl += "[]";
      } catch (const std::exception&)
      {
         prop += "E:other"; intl += "[]";
      }
      wb.failNext = false;
   }
   return prop + " ## " + intl;
}

#define CAPS(X) X(1) X(2) X(3) X(4) X(5) X(8) X(16) X(64)

std::string run_case(const std::vector<std::string>& w)
{
   const size_t cap = std::stoull(w[2]);
   if (w[1] == "R")
   {
#define X(n) if (cap == n) return runR<n>(w);
      CAPS(X)
#undef X
   } else if (w[1] == "W")
   {
#define X(n) if (cap == n) return runW<n>(w);
      CAPS(X)
#undef X
   }
   return "unsupported";
}

} // namespace

int main(int argc, char** argv) { return vf::main_loop(argc, argv, run_case); }
