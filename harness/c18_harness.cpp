// Implementation harness for C18 (usage lists exactly the visible arguments).
// Builds a real celma::prog_args::Handler from the case line, evaluates the
// help arguments with "usage continues" and prints a layout-insensitive digest
// of what was written to the output / error stream (property observable) and
// the raw texts (internal observable).
//
// case line:  <id> f=<flags int> w=<line length> c=<cmd>,<cmd>,...|- [t1=<b|a|u>:<hex>] [t2=<b|a|u>:<hex>] a:<...> ...
//   g:<keyspec>:<flags int>:<desc hex>   starts a sub-group: a handler created with Handler( main, flags) (shares the
//         usage settings of the main handler); the a: tokens that follow belong to it; after all arguments of the
//         main handler it is added with main.addArgument( keyspec, subHandler, desc)
//   cmd s<idx>: the key of sub-group idx followed by -h (or --help): usage of the sub-group
//   t1 / t2: usage texts (IUsageText) given to the constructor: position before / after / unused, text
//   cmd:  ph (--print-hidden)  pd (--print-deprecated)  hs (--help-short)  hl (--help-long)
//         h (-h)  H (--help)  ha=<hex key> (--help-arg <key>)
//   a:<keyspec>:<kind>:<iv hex>:<letters|->:<repl hex>:<unit hex>:<chk hex~hex..>:<con hex~hex..>:<desc hex>
//     kind: i int, s string, b bool, l LevelCounter, o optional<int>, v vector<int>
//     iv:   text of the initial value of the variable (i, l: decimal; s: the string)
//     letters: m mandatory, h hidden, d deprecated, p setPrintDefault(true), n setPrintDefault(false)
//     chk / con: toString() texts of checks / constraints (own ICheck / IArgConstraint classes)
// result:  ok D=<digest of out> E=<digest of err> ## out=<hex> err=<hex>
//          err:<exception class> ##      setup:<exception class> ##
#include <memory>
#include <optional>
#include <sstream>
#include <string>
#include <typeinfo>
#include <vector>
#include "case_io.hpp"
#include "celma/prog_args.hpp"
#include "celma/prog_args/level_counter.hpp"
#include "celma/prog_args/detail/i_check.hpp"
#include "celma/prog_args/detail/i_arg_constraint.hpp"
#include "celma/prog_args/i_usage_text.hpp"

namespace pa = celma::prog_args;
using celma::prog_args::detail::TypedArgBase;

namespace {

class TextCheck final : public pa::detail::ICheck
{
public:
   TextCheck(const std::string& name, const std::string& text) : ICheck(name), mText(text) {}
   void checkValue(const std::string&) const override {}
   std::string toString() const override { return mText; }
private:
   std::string mText;
};

class TextConstraint final : public pa::detail::IArgConstraint
{
public:
   TextConstraint(const std::string& text, pa::detail::ConstraintContainer* c)
      : IArgConstraint("text", "x", c), mText(text) {}
   void executeConstraint(const pa::detail::ArgumentKey&) override {}
   std::string toString() const override { return mText; }
private:
   std::string mText;
};

class TextUsage final : public pa::IUsageText
{
public:
   TextUsage(pa::Handler::UsagePos up, const std::string& text) : IUsageText(up), mText(text) {}
   void print(std::ostream& os) const override { os << mText; }
private:
   std::string mText;
};

std::unique_ptr<TextUsage> makeText(const std::string& spec)
{
   const auto pos = spec[0] == 'b' ? pa::Handler::UsagePos::beforeArgs
                  : spec[0] == 'a' ? pa::Handler::UsagePos::afterArgs : pa::Handler::UsagePos::unused;
   return std::unique_ptr<TextUsage>(new TextUsage(pos, vf::unhexs(spec.substr(2))));
}

const char* excClass(const std::exception& e)
{
   if (dynamic_cast<const pa::argument_error*>(&e)) return "argument_error";
   if (dynamic_cast<const std::out_of_range*>(&e)) return "out_of_range";
   if (dynamic_cast<const std::invalid_argument*>(&e)) return "invalid_argument";
   if (dynamic_cast<const std::length_error*>(&e)) return "length_error";
   if (dynamic_cast<const std::runtime_error*>(&e)) return "runtime_error";
   if (dynamic_cast<const std::logic_error*>(&e)) return "logic_error";
   return "other";
}

struct Vars
{
   std::vector<std::unique_ptr<int>>                 i;
   std::vector<std::unique_ptr<std::string>>         s;
   std::vector<std::unique_ptr<bool>>                b;
   std::vector<std::unique_ptr<pa::LevelCounter>>    l;
   std::vector<std::unique_ptr<std::optional<int>>>  o;
   std::vector<std::unique_ptr<std::vector<int>>>    v;
};

// the layout-insensitive reading of a usage text (mirror of Usage.digest)
std::string digest(const std::string& text)
{
   struct Item { bool cap; std::string key; std::vector<std::string> ws; };
   std::vector<Item> items;
   size_t pos = 0;
   while (pos <= text.size())
   {
      size_t e = text.find('\n', pos);
      if (e == std::string::npos) e = text.size();
      const std::string line = text.substr(pos, e - pos);
      pos = e + 1;
      std::vector<std::string> toks;
      std::string cur;
      for (char ch : line) { if (ch == ' ') { if (!cur.empty()) toks.push_back(cur); cur.clear(); } else cur += ch; }
      if (!cur.empty()) toks.push_back(cur);
      if (toks.empty()) continue;
      size_t lead = 0;
      while (lead < line.size() && line[lead] == ' ') ++lead;
      if (lead == 0) items.push_back({ true, line, {} });
      else if (lead == 3) items.push_back({ false, toks[0], std::vector<std::string>(toks.begin() + 1, toks.end()) });
      else if (!items.empty() && !items.back().cap) items.back().ws.insert(items.back().ws.end(), toks.begin(), toks.end());
      else items.push_back({ false, "", toks });
   }
   if (items.empty()) return "-";
   std::string r;
   for (size_t k = 0; k < items.size(); ++k)
   {
      if (k) r += ";";
      if (items[k].cap) r += "C" + vf::hex(items[k].key);
      else
      {
         r += "E" + vf::hex(items[k].key) + ":";
         for (size_t j = 0; j < items[k].ws.size(); ++j) r += (j ? "," : "") + vf::hex(items[k].ws[j]);
      }
   }
   return r;
}

std::vector<std::string> fields(const std::string& s)
{
   std::vector<std::string> r;
   std::string cur;
   for (char ch : s) { if (ch == ':') { r.push_back(cur); cur.clear(); } else cur += ch; }
   r.push_back(cur);
   return r;
}

std::string run_case(const std::vector<std::string>& w)
{
   int flags = 0, width = 80, again = 0;
   std::vector<std::string> cmds, argToks;
   std::vector<int> argOwner;                       // -1: main handler, else index of the sub-group
   struct Group { std::string keyspec; int flags; std::string desc; int parent; };   // parent: -1 = main handler
   std::vector<Group> groups;
   std::unique_ptr<TextUsage> txt1, txt2;
   for (size_t t = 1; t < w.size(); ++t)
   {
      const std::string& tok = w[t];
      if (tok.rfind("f=", 0) == 0) flags = std::stoi(tok.substr(2));
      else if (tok.rfind("w=", 0) == 0) width = std::stoi(tok.substr(2));
      else if (tok.rfind("c=", 0) == 0) cmds = vf::split(tok.substr(2), ',');
      else if (tok.rfind("again=", 0) == 0) again = std::stoi(tok.substr(6));   // print the usage n more times
      else if (tok.rfind("a:", 0) == 0) { argToks.push_back(tok); argOwner.push_back(static_cast<int>(groups.size()) - 1); }
      else if (tok.rfind("g:", 0) == 0)
      {
         auto f = fields(tok);
         // g:<key>:<flags>:<desc>[:<parent>] : a sub-group handler, attached to the main handler or to sub-group <parent>
         if (f.size() != 4 && f.size() != 5) return "setup:invalid_argument ##";
         const int parent = f.size() == 5 ? std::stoi(f[4]) : -1;
         if (parent >= static_cast<int>(groups.size())) return "setup:invalid_argument ##";
         groups.push_back({ f[1], std::stoi(f[2]), vf::unhexs(f[3]), parent });
      }
      else if (tok.rfind("t1=", 0) == 0) txt1 = makeText(tok.substr(3));
      else if (tok.rfind("t2=", 0) == 0) txt2 = makeText(tok.substr(3));
   }
   std::ostringstream out, err;
   Vars V;
   std::unique_ptr<pa::Handler> h;
   std::vector<std::unique_ptr<pa::Handler>> subs;
   int checkNo = 0;
   try
   {
      h.reset(new pa::Handler(out, err, flags, txt1.get(), txt2.get()));
      if (width != 80) h->setUsageLineLength(width);
      for (auto& g : groups)
      {
         subs.emplace_back(new pa::Handler(g.parent < 0 ? *h : *subs[static_cast<size_t>(g.parent)], g.flags));
         if (width != 80) subs.back()->setUsageLineLength(width);
      }
      for (auto& a : argToks)
      {
         const int owner = argOwner[&a - &argToks[0]];
         pa::Handler* target = owner < 0 ? h.get() : subs[owner].get();
         auto f = fields(a);
         if (f.size() != 10) throw std::invalid_argument("argument token");
         const std::string keyspec = f[1], kind = f[2], iv = vf::unhexs(f[3]), letters = f[4];
         const std::string repl = vf::unhexs(f[5]), unit = vf::unhexs(f[6]), desc = vf::unhexs(f[9]);
         TypedArgBase* dest = nullptr;
         const std::string vname = "var" + std::to_string(&a - &argToks[0]);
         if (kind == "i") { V.i.emplace_back(new int(iv.empty() ? 0 : std::stoi(iv))); dest = pa::destination(*V.i.back(), vname); }
         else if (kind == "s") { V.s.emplace_back(new std::string(iv)); dest = pa::destination(*V.s.back(), vname); }
         else if (kind == "b") { V.b.emplace_back(new bool(false)); dest = pa::destination(*V.b.back(), vname); }
         else if (kind == "l") { V.l.emplace_back(new pa::LevelCounter()); if (!iv.empty()) *V.l.back() = std::stoi(iv); dest = pa::destination(*V.l.back(), vname); }
         else if (kind == "o") { V.o.emplace_back(new std::optional<int>()); dest = pa::destination(*V.o.back(), vname); }
         else if (kind == "v") { V.v.emplace_back(new std::vector<int>()); dest = pa::destination(*V.v.back(), vname); }
         else throw std::invalid_argument("kind");
         TypedArgBase* ta = target->addArgument(keyspec, dest, desc);
         for (char c : letters)
         {
            if (c == 'm') ta->setIsMandatory();
            else if (c == 'h') ta->setIsHidden();
            else if (c == 'd') ta->setIsDeprecated();
            else if (c == 'p') ta->setPrintDefault(true);
            else if (c == 'n') ta->setPrintDefault(false);
         }
         if (!repl.empty()) ta->setReplacedBy(repl);
         if (!unit.empty()) ta->setValueUnit(unit);
         for (auto& c : vf::split(f[7], '~')) ta->addCheck(new TextCheck("tc" + std::to_string(checkNo++), vf::unhexs(c)));
         for (auto& c : vf::split(f[8], '~'))
         {
            const std::string text = vf::unhexs(c);
            ta->addConstraint([text](pa::detail::ConstraintContainer* cc) -> pa::detail::IArgConstraint*
                              { return new TextConstraint(text, cc); });
         }
      }
      for (size_t g = 0; g < groups.size(); ++g)
         (groups[g].parent < 0 ? h.get() : subs[static_cast<size_t>(groups[g].parent)].get())
            ->addArgument(groups[g].keyspec, *subs[g], groups[g].desc);
   } catch (const std::exception& e)
   {
      return std::string("setup:") + excClass(e) + " ##";
   }
   std::vector<std::string> words;
   words.push_back("prog");
   for (auto& c : cmds)
   {
      if (c == "ph") words.push_back("--print-hidden");
      else if (c == "pd") words.push_back("--print-deprecated");
      else if (c == "hs") words.push_back("--help-short");
      else if (c == "hl") words.push_back("--help-long");
      else if (c == "h") words.push_back("-h");
      else if (c == "H") words.push_back("--help");
      else if (c[0] == 's' && c.size() > 1 && isdigit(static_cast<unsigned char>(c[1])))
      {
         const Group& g = groups.at(std::stoul(c.substr(1)));
         // first key of the specification, with its dash(es)
         std::string k = g.keyspec.substr(0, g.keyspec.find(','));
         words.push_back((k.size() == 1 ? "-" : "--") + k);
         words.push_back((g.flags & 1) ? "-h" : "--help");
      }
      else if (c.rfind("ha=", 0) == 0) { words.push_back("--help-arg"); words.push_back(vf::unhexs(c.substr(3))); }
      else if (c.rfind("set=", 0) == 0)
      {
         // set=<idx>:<value hex> : argument <idx> of the main handler with this value
         const size_t colon = c.find(':');
         const size_t idx = std::stoul(c.substr(4, colon - 4));
         size_t seen = 0;
         for (size_t a = 0; a < argToks.size(); ++a)
         {
            if (argOwner[a] >= 0) continue;
            if (seen++ != idx) continue;
            std::string k = fields(argToks[a])[1];
            k = k.substr(0, k.find(','));
            if (k != "-") words.push_back((k.size() == 1 ? "-" : "--") + k);   // the free-value argument has no key
            words.push_back(vf::unhexs(c.substr(colon + 1)));
         }
      }
   }
   std::vector<std::unique_ptr<char[]>> store;
   std::vector<char*> argv;
   for (auto& s : words)
   {
      store.emplace_back(new char[s.size() + 1]);
      std::memcpy(store.back().get(), s.c_str(), s.size() + 1);
      argv.push_back(store.back().get());
   }
   argv.push_back(nullptr);
   std::string outcome;
   try
   {
      h->evalArguments(static_cast<int>(words.size()), argv.data());
      // the same object prints its usage again (what Handler::usage() writes without usage texts)
      for (int k = 0; k < again; ++k) out << "Usage:" << std::endl << *h << std::endl;
      outcome = "ok";
   } catch (const std::exception& e)
   {
      outcome = std::string("err:") + excClass(e);
   } catch (...)
   {
      outcome = "err:non-std";
   }
   std::string res = outcome;
   // after an exception only the outcome is reported: what was written before it is not modelled
   if (outcome != "ok") return res + " ##";
   res += " D=" + digest(out.str()) + " E=" + digest(err.str());
   res += " ## out=" + vf::hex(out.str()) + " err=" + vf::hex(err.str());
   return res;
}

} // namespace

int main(int argc, char** argv) { return vf::main_loop(argc, argv, run_case); }
