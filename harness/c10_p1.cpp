// capacities [1, 2] (both objects) of the C10/C11 harness
#include "c10_impl.hpp"
namespace c10 {
std::string run_1_1(const std::vector<std::string>& w) { return run<1, 1>(w); }
std::string run_2_2(const std::vector<std::string>& w) { return run<2, 2>(w); }
}
