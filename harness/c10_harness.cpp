// Implementation harness for C10 and C11 (main program): see c10_impl.hpp for the
// case format.  The per-capacity instantiations of c10::run<L> are compiled in
// c10_p1.cpp .. c10_p5.cpp (parallel build).
#include <algorithm>
#include <csignal>
#include <cstddef>
#include <string>
#include <vector>
#include <sys/mman.h>
#include <sys/wait.h>
#include <unistd.h>
#include "case_io.hpp"

namespace c10 {
volatile int* g_step = nullptr;
// same capacity for both objects, and pairs of different capacities in both orders
#define C10_SAME(X) X(1,1) X(2,2) X(3,3) X(4,4) X(5,5) X(8,8) X(10,10) X(20,20) X(30,30) X(254,254) X(255,255) X(256,256) X(300,300)
#define C10_MIXED(X) X(1,3) X(3,1) X(2,20) X(20,2) X(3,20) X(20,3) X(3,30) X(30,3) X(20,255) X(255,20) \
                     X(30,256) X(256,30) X(255,256) X(256,255) X(3,256) X(256,3)
#define X(l,s) std::string run_##l##_##s(const std::vector<std::string>& w);
C10_SAME(X) C10_MIXED(X)
#undef X
}

namespace {

std::string run_case(const std::vector<std::string>& w)
{
   if (w.size() < 5) return "bad-case";
   // capacity token: "L" (both objects FixedString< L>) or "L/S" (the other object is a FixedString< S>)
   const size_t slash = w[2].find('/');
   const size_t cap = std::stoull(w[2].substr(0, slash));
   const size_t ocap = slash == std::string::npos ? cap : std::stoull(w[2].substr(slash + 1));
#define X(l,s) if (cap == l && ocap == s) return c10::run_##l##_##s(w);
   C10_SAME(X) C10_MIXED(X)
#undef X
   return "unsupported-capacity";
}

// shared between parent and child: index of the running case, whether its result was printed
struct Shared { volatile size_t idx; volatile int printed; volatile int step; };

std::string crash_kind(const std::string& err, int status)
{
   size_t p = err.find("ERROR: AddressSanitizer: ");
   if (p != std::string::npos)
   {
      p += 25; size_t e = p;
      while (e < err.size() && (std::isalpha(static_cast<unsigned char>(err[e])) || err[e] == '-')) ++e;
      return "asan:" + err.substr(p, e - p);
   }
   p = err.find("runtime error: ");
   if (p != std::string::npos)
   {
      std::string m = err.substr(p + 15, 60);
      m = m.substr(0, m.find('\n'));
      for (char& c : m) if (c == ' ') c = '_';
      return "ubsan:" + m;
   }
   if (err.find("terminate called") != std::string::npos)
   {
      size_t q = err.find("instance of '");
      std::string what = q == std::string::npos ? "" : err.substr(q + 13, err.find('\'', q + 13) - q - 13);
      if (std::getenv("C10_DEBUG")) std::fprintf(stderr, "[[%s]]\n", err.c_str());
      return "terminate:" + what;
   }
   if (WIFSIGNALED(status)) return "signal" + std::to_string(WTERMSIG(status));
   return "exit" + std::to_string(WEXITSTATUS(status));
}

} // namespace

int main(int argc, char** argv)
{
   if (argc < 2) { std::fprintf(stderr, "usage: %s <case file> [first-id]\n", argv[0]); return 2; }
   std::vector<std::vector<std::string>> cases;
   {
      std::ifstream in(argv[1]);
      const std::string skip_until = argc > 2 ? argv[2] : "";
      bool skipping = !skip_until.empty();
      std::string line;
      while (std::getline(in, line))
      {
         auto w = vf::words(line);
         if (w.empty()) continue;
         if (skipping) { if (w[0] != skip_until) continue; skipping = false; }
         cases.push_back(w);
      }
   }
   Shared* sh = static_cast<Shared*>(::mmap(nullptr, sizeof(Shared), PROT_READ | PROT_WRITE, MAP_SHARED | MAP_ANONYMOUS, -1, 0));
   size_t next = 0;
   while (next < cases.size())
   {
      char tmpl[] = "/verif/.work/c10_err_XXXXXX";
      int efd = ::mkstemp(tmpl);
      if (efd < 0) { char t2[] = "/tmp/c10_err_XXXXXX"; efd = ::mkstemp(t2); ::unlink(t2); } else ::unlink(tmpl);
      sh->idx = next; sh->printed = 0; sh->step = 0;
      c10::g_step = &sh->step;
      std::fflush(stdout);
      static const unsigned caseTimeout = [] { const char* e = ::getenv("VERIF_CASE_TIMEOUT"); const int v = e ? std::atoi(e) : 0; return static_cast<unsigned>(v > 0 ? v : 120); }();
      const pid_t pid = ::fork();
      if (pid == 0)
      {
         ::dup2(efd, 2);
         for (size_t i = next; i < cases.size(); ++i)
         {
            sh->idx = i; sh->printed = 0; sh->step = 0;
            ::alarm(caseTimeout);   // wall clock: generous, the machine may be busy with other checks
            const std::string res = run_case(cases[i]);
            std::printf("%s %s\n", cases[i][0].c_str(), res.c_str());
            std::fflush(stdout);
            sh->printed = 1;
         }
         ::_exit(0);
      }
      int status = 0;
      ::waitpid(pid, &status, 0);
      if (WIFEXITED(status) && WEXITSTATUS(status) == 0) { ::close(efd); break; }
      std::string err;
      {
         ::lseek(efd, 0, SEEK_SET);
         char buf[4096]; ssize_t k;
         while ((k = ::read(efd, buf, sizeof buf)) > 0 && err.size() < 65536) err.append(buf, static_cast<size_t>(k));
         ::close(efd);
      }
      const size_t i = sh->idx;
      if (!sh->printed)
      {
         std::string kind = (WIFSIGNALED(status) && WTERMSIG(status) == SIGALRM) ? "timeout" : crash_kind(err, status);
         std::printf("%s CRASH:%s@%d\n", cases[i][0].c_str(), kind.c_str(), static_cast<int>(sh->step));
         std::fflush(stdout);
      }
      next = i + 1;
   }
   return 0;
}
