// capacities [5, 8] of the C10/C11 harness
#include "c10_impl.hpp"
namespace c10 {
std::string run_5(const std::vector<std::string>& w) { return run<5>(w); }
std::string run_8(const std::vector<std::string>& w) { return run<8>(w); }
}
