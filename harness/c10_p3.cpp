// capacities [5, 8, 20] (both objects) of the C10/C11 harness
#include "c10_impl.hpp"
namespace c10 {
std::string run_5_5(const std::vector<std::string>& w) { return run<5, 5>(w); }
std::string run_8_8(const std::vector<std::string>& w) { return run<8, 8>(w); }
std::string run_20_20(const std::vector<std::string>& w) { return run<20, 20>(w); }
}
