// Implementation harness for C16: scripted histories on the real
// celma::log::formatting::Creator / Format, detail::LogMsg, LogAttributes,
// detail::ScopedAttribute and the attribute store of Logging, from the
// repository's working tree.
//
// case:  <id> <strftime table (used by the model only)> <op>;<op>;...
//   strings are hex, "-" is the empty string, "~" the null pointer
//   K<s|-|~>        new Creator( def, s)
//   w<int> l f<s> s<s|-|~> c<s> a<s>     << int, << left, << formatString, << separator, << string, << attribute
//   t<code>         the field manipulators (co/at: Creator::field( constant/attribute))
//   GA<n>:<v> GR<n>                      Logging::addAttribute / removeAttribute
//   SO<n>:<v> SC                         ScopedAttribute constructed / innermost one destroyed
//   LN<outer|-> LA<i>:<n>:<v> LR<i>:<n> LP<i>   LogAttributes objects
//   M<attrs|->:<level>:<class>:<err>:<line>:<ts>:<us>:<pid>:<tid>:<file>:<func>:<text>
//                   formats the message with Format( def) into a fresh std::ostringstream and sends it
//                   through Logging::log() to a LogDestStream with the same formatter
// result: one token per M: the text as hex; after "##" the field list of the definition.
#include <algorithm>
#include <chrono>
#include <memory>
#include <sstream>
#include <stdexcept>
#include <string>
#include <vector>
#include <map>
#include <mutex>
#include <bitset>
#include <iosfwd>
#include <ostream>
#include <boost/scoped_ptr.hpp>
#include "case_io.hpp"
#define private public
#define protected public
#include "celma/log/formatting/definition.hpp"
#include "celma/log/formatting/creator.hpp"
#include "celma/log/detail/log_msg.hpp"
#undef private
#undef protected
#include "celma/log/formatting/format.hpp"
#include "celma/log/log_attributes.hpp"
#include "celma/log/detail/log_scoped_attribute.hpp"
#include "celma/log/detail/log_dest_stream.hpp"
#include "celma/log/detail/log.hpp"
#include "celma/log/logging.hpp"

namespace {

namespace clf = celma::log::formatting;
using celma::log::Logging;
using celma::log::LogAttributes;
using celma::log::detail::LogMsg;
using celma::log::detail::ScopedAttribute;
using FT = clf::Definition::FieldTypes;

std::string S( const std::string& h) { return (h == "-" || h.empty()) ? std::string() : vf::unhexs( h); }

// splits at every ':' (always at least one element, "-" stays a field)
std::vector< std::string> splitc( const std::string& a)
{
   std::vector< std::string> f; std::string cur;
   for (char ch : a) { if (ch == ':') { f.push_back( cur); cur.clear(); } else cur += ch; }
   f.push_back( cur);
   return f;
}

const char* const codes[] = { "co", "da", "ti", "ms", "us", "dt", "pi", "th", "ln", "fu", "fi", "le", "cl", "er", "tx", "at" };

void add_field( clf::Creator& c, const std::string& code)
{
   if (code == "da") c << clf::date;
   else if (code == "ti") c << clf::time;
   else if (code == "ms") c << clf::time_ms;
   else if (code == "us") c << clf::time_us;
   else if (code == "dt") c << clf::date_time;
   else if (code == "pi") c << clf::pid;
   else if (code == "th") c << clf::thread_id;
   else if (code == "ln") c << clf::line_nbr;
   else if (code == "fu") c << clf::func_name;
   else if (code == "fi") c << clf::filename;
   else if (code == "le") c << clf::level;
   else if (code == "cl") c << clf::log_class;
   else if (code == "er") c << clf::error_nbr;
   else if (code == "tx") c << clf::text;
   else if (code == "co") c.field( FT::constant);
   else if (code == "at") c.field( FT::attribute);
}

std::string run_case( const std::vector<std::string>& w)
{
   // live objects of the previous case first
   Logging::reset();
   clf::Definition                                   def;
   std::unique_ptr< clf::Creator>                    cr( new clf::Creator( def));
   std::vector< std::unique_ptr< LogAttributes>>     objs;
   std::vector< std::unique_ptr< ScopedAttribute>>   scopes;
   std::ostringstream                                via_log;
   celma::log::detail::ILogDest*                     dest = nullptr;
   celma::log::id_t                                  log_id = 0;
   std::string prop;

   for (auto& o : vf::split( w.size() > 2 ? w[2] : "-", ';'))
   {
      if (o.empty()) continue;
      const std::string a = o.substr( 1);
      switch (o[0])
      {
      case 'K':
         if (a == "~") cr.reset( new clf::Creator( def));
         else { const std::string s = S( a); cr.reset( new clf::Creator( def, s.c_str())); }
         break;
      case 'w': *cr << std::stoi( a); break;
      case 'l': *cr << clf::left; break;
      case 'f': *cr << clf::formatString( S( a)); break;
      case 's':
         if (a == "~") *cr << clf::separator( nullptr);
         else { const std::string s = S( a); *cr << clf::separator( s.c_str()); }
         break;
      case 'c': *cr << S( a); break;
      case 'a': *cr << clf::attribute( S( a)); break;
      case 't': add_field( *cr, a); break;
      case 'G':
      {
         const auto f = splitc( a.substr( 1));
         if (a[0] == 'A') Logging::instance().addAttribute( S( f[0]), S( f.size() > 1 ? f[1] : "-"));
         else Logging::instance().removeAttribute( S( f[0]));
         break;
      }
      case 'S':
         if (a[0] == 'O')
         {
            const auto f = splitc( a.substr( 1));
            scopes.emplace_back( new ScopedAttribute( S( f[0]), S( f.size() > 1 ? f[1] : "-")));
         } else if (!scopes.empty()) scopes.pop_back();
         break;
      case 'L':
      {
         const auto f = splitc( a.substr( 1));
         if (a[0] == 'N')
         {
            if (f.empty() || f[0] == "-") objs.emplace_back( new LogAttributes());
            else objs.emplace_back( new LogAttributes( objs.at( std::stoul( f[0])).get()));
            break;
         }
         const size_t i = std::stoul( f[0]);
         if (i >= objs.size()) break;
         if (a[0] == 'A') objs[i]->addAttribute( S( f[1]), S( f.size() > 2 ? f[2] : "-"));
         else if (a[0] == 'R') objs[i]->removeAttribute( S( f[1]));
         else objs[i]->removeAttribute();
         break;
      }
      case 'M':
      {
         const std::vector< std::string> f = splitc( a);
         if (f.size() != 12) { prop += (prop.empty() ? "" : " ") + std::string( "badmsg"); break; }
         LogMsg m( "c16.cpp", "c16", 1);
         if (f[0] != "-" && std::stoul( f[0]) < objs.size()) m.setAttributes( *objs[std::stoul( f[0])]);
         m.setLevel( static_cast< celma::log::LogLevel>( std::stoi( f[1])));
         m.setClass( static_cast< celma::log::LogClass>( std::stoi( f[2])));
         m.setErrorNumber( std::stoi( f[3]));
         m.mLineNbr = std::stoi( f[4]);
         m.mTimestamp = std::chrono::system_clock::from_time_t( static_cast< time_t>( std::stoll( f[5])))
                        + std::chrono::microseconds( std::stoll( f[6]));
         m.mProcessId = static_cast< pid_t>( std::stoi( f[7]));
         m.mThreadId = static_cast< pthread_t>( std::stoull( f[8]));
         m.mFileName = S( f[9]);
         m.mFunctionName = S( f[10]);
         m.setText( S( f[11]));
         std::string r;
         try
         {
            std::ostringstream oss;
            clf::Format fmt( def);
            static_cast< const celma::log::detail::IFormatStream&>( fmt).formatMsg( oss, m);
            r = vf::hex( oss.str());
            // the same through a log with a stream destination
            if (dest == nullptr)
            {
               log_id = Logging::instance().findCreateLog( "c16");
               dest = Logging::instance().getLog( log_id)->addDestination( "stream",
                  new celma::log::detail::LogDestStream( via_log));
            }
            dest->setFormatter( new clf::Format( def));
            via_log.str( "");
            Logging::instance().log( log_id, m);
            if (via_log.str() != oss.str()) r += "!via-log:" + vf::hex( via_log.str());
         } catch (const std::exception& e)
         {
            r = std::string( "E:") + typeid( e).name();
         }
         prop += (prop.empty() ? "" : " ") + r;
         break;
      }
      default: break;
      }
   }
   // destructors of the scoped attributes still alive, innermost first
   while (!scopes.empty()) scopes.pop_back();
   std::string intl;
   for (auto const& fd : def.mFields)
   {
      // order of the enumerators: constant,date,time,time_ms,time_us,dateTime,pid,threadId,lineNbr,
      // functionName,fileName,msgLevel,msgClass,errorNbr,text,attribute
      if (!intl.empty()) intl += ",";
      intl += codes[static_cast< int>( fd.mType)];
      intl += ":" + vf::hex( fd.mConstant) + ":" + std::to_string( fd.mFixedWidth) + ":" + (fd.mAlignLeft ? "l" : "r");
   }
   if (prop.empty()) prop = "none";
   Logging::reset();   // the log holds a reference to via_log
   return prop + " ## " + (intl.empty() ? "-" : intl);
}

} // namespace

int main( int argc, char** argv)
{
   ::setenv( "TZ", "UTC", 1);
   ::tzset();
   return vf::main_loop( argc, argv, run_case);
}
