// Implementation harness for C12: runs operation scripts on the real
// celma::container::DynamicBitset (library/container/dynamic_bitset.cpp is
// compiled from the tree under test) and prints, after every operation, the
// observers and the sequences produced by forward / reverse iteration.
//
// case:   <id> <bits of A> <bits of B> <op>,<op>,...      ('-' = empty)
//         bit strings are in index order (first character = position 0)
// result: one block per state (initial state first), separated by blanks:
//         <op result>;<size>;<to_string>;<count>;<any><none><all>;<to_ulong>;<fwd>;<rev>;<back>
#include <stdexcept>
#include <bitset>
#include <string>
#include <vector>
#include "case_io.hpp"
#include "celma/container/dynamic_bitset.hpp"

namespace {

using celma::container::DynamicBitset;

std::vector<bool> bits(const std::string& s)
{
   std::vector<bool> v;
   if (s == "-") return v;
   v.reserve(s.size());
   for (char c : s) v.push_back(c == '1');
   v.shrink_to_fit();
   return v;
}

std::string join(const std::vector<size_t>& v)
{
   if (v.empty()) return "-";
   std::string r;
   for (size_t i = 0; i < v.size(); ++i) r += (i ? "." : "") + std::to_string(static_cast<long long>(v[i]));
   return r;
}

// one iteration loop with a step bound (a loop that does not end is reported, not waited for)
template<typename First, typename Last, typename Next>
std::string iterate(size_t bound, First first, Last last, Next next)
{
   try
   {
      std::vector<size_t> seq;
      auto it = first();
      const auto e = last();
      while (it != e)
      {
         if (seq.size() > bound) return "F:fuel";
         seq.push_back(*it);
         next(it);
      }
      return join(seq);
   } catch (const std::out_of_range&)
   {
      return "E:out_of_range";
   } catch (const std::exception&)
   {
      return "E:other";
   }
}

std::string observers(DynamicBitset& a)
{
   const DynamicBitset& c = a;
   const size_t n = c.size();
   std::string s = std::to_string(n) + ";";
   const std::string str = c.to_string();
   s += (str.empty() ? "-" : str) + ";" + std::to_string(c.count()) + ";";
   s += c.any() ? "1" : "0"; s += c.none() ? "1" : "0"; s += c.all() ? "1" : "0";
   s += ";";
   try { s += std::to_string(c.to_ulong()); }
   catch (const std::overflow_error&) { s += "E:overflow_error"; }
   catch (const std::exception&) { s += "E:other"; }
   // test(i) must agree with to_string for every i < size
   bool test_ok = str.size() == n;
   for (size_t i = 0; test_ok && i < n; ++i)
   {
      try { if (c.test(i) != (str[n - 1 - i] == '1')) test_ok = false; }
      catch (const std::exception&) { test_ok = false; }
   }
   if (!test_ok) s += "!test";
   // to_string( zero, one) with other characters is to_string() with the characters exchanged
   for (auto zo : { std::pair<char, char>('1', '0'), std::pair<char, char>('.', 'x'), std::pair<char, char>('0', '0'), std::pair<char, char>('x', '1') })
   {
      std::string want(str);
      for (auto& ch : want) ch = ch == '0' ? zo.first : zo.second;
      if (c.to_string(zo.first, zo.second) != want) { s += std::string("!to_string(") + zo.first + "," + zo.second + ")"; break; }
   }

   // forward: non-const begin()/end() with pre-increment (what range-for does) ...
   std::string fwd = iterate(n, [&] { return a.begin(); }, [&] { return a.end(); }, [](auto& it) { ++it; });
   // ... and the const iterators with post-increment must give the same sequence
   std::string cfwd = iterate(n, [&] { return c.cbegin(); }, [&] { return c.cend(); }, [](auto& it) { it++; });
   std::string cfwd2 = iterate(n, [&] { return c.begin(); }, [&] { return c.end(); }, [](auto& it) { ++it; });
   if (cfwd != fwd || cfwd2 != fwd) fwd += "!const:" + cfwd + ":" + cfwd2;
   std::string rev = iterate(n, [&] { return a.rbegin(); }, [&] { return a.rend(); }, [](auto& it) { ++it; });
   std::string crev = iterate(n, [&] { return c.crbegin(); }, [&] { return c.crend(); }, [](auto& it) { it++; });
   std::string crev2 = iterate(n, [&] { return c.rbegin(); }, [&] { return c.rend(); }, [](auto& it) { ++it; });
   if (crev != rev || crev2 != rev) rev += "!const:" + crev + ":" + crev2;
   // walking back from end() with operator-- until end() is reached again
   std::string back = iterate(n, [&] { auto it = a.end(); --it; return it; }, [&] { return a.end(); },
                              [](auto& it) { --it; });
   return s + ";" + fwd + ";" + rev + ";" + back;
}

// std::bitset<N> needs its size at compile time: the sizes the generator uses
template<size_t N> std::bitset<N> toBitset(const std::vector<bool>& bv)
{
   std::bitset<N> r;
   for (size_t i = 0; i < N && i < bv.size(); ++i) r[i] = bv[i];
   return r;
}

template<size_t N> void fromBitset(DynamicBitset& a, const std::vector<bool>& bv, bool construct)
{
   const std::bitset<N> src = toBitset<N>(bv);
   if (construct) a = DynamicBitset(src); else a = src;
}

// returns false when the size is not among the instantiated ones
bool assignBitset(DynamicBitset& a, const std::vector<bool>& bv, bool construct)
{
   switch (bv.size())
   {
   case 0: fromBitset<0>(a, bv, construct); return true;
   case 1: fromBitset<1>(a, bv, construct); return true;
   case 2: fromBitset<2>(a, bv, construct); return true;
   case 3: fromBitset<3>(a, bv, construct); return true;
   case 4: fromBitset<4>(a, bv, construct); return true;
   case 5: fromBitset<5>(a, bv, construct); return true;
   case 6: fromBitset<6>(a, bv, construct); return true;
   case 7: fromBitset<7>(a, bv, construct); return true;
   case 8: fromBitset<8>(a, bv, construct); return true;
   case 9: fromBitset<9>(a, bv, construct); return true;
   case 10: fromBitset<10>(a, bv, construct); return true;
   case 16: fromBitset<16>(a, bv, construct); return true;
   case 63: fromBitset<63>(a, bv, construct); return true;
   case 64: fromBitset<64>(a, bv, construct); return true;
   case 65: fromBitset<65>(a, bv, construct); return true;
   case 100: fromBitset<100>(a, bv, construct); return true;
   default: return false;
   }
}

std::string run_case(const std::vector<std::string>& w)
{
   if (w.size() < 4) return "unsupported";
   DynamicBitset a(bits(w[1]));
   const std::vector<bool> bv = bits(w[2]);
   const DynamicBitset b(bv);
   std::string out = "-;" + observers(a);
   for (auto& tok : vf::split(w[3], ','))
   {
      auto f = vf::split(tok, ':');
      const std::string& op = f[0];
      const size_t p = f.size() > 1 ? std::stoull(f[1]) : 0;
      const bool v = f.size() > 2 && f[2] == "1";
      std::string r = "-";
      try
      {
         if (op == "test") r = a.test(p) ? "1" : "0";
         else if (op == "idx") { const DynamicBitset& c = a; r = c[p] ? "1" : "0"; }
         else if (op == "ref") { bool x = a[p]; r = x ? "1" : "0"; }
         else if (op == "put") a[p] = v;
         else if (op == "set") a.set(p, v);
         else if (op == "setall") a.set();
         else if (op == "reset") a.reset(p);
         else if (op == "resetall") a.reset();
         else if (op == "flip") a.flip(p);
         else if (op == "flipall") a.flip();
         else if (op == "resize") a.resize(p, v);
         else if (op == "assign") a = bv;
         else if (op == "assignmv") { std::vector<bool> tmp(bv); a = std::move(tmp); }
         else if (op == "assigndb") a = b;
         else if (op == "ctormv") { std::vector<bool> tmp(bv); a = DynamicBitset(std::move(tmp)); }
         else if (op == "assignbs") { if (!assignBitset(a, bv, false)) return "unsupported"; }
         else if (op == "ctorbs") { if (!assignBitset(a, bv, true)) return "unsupported"; }
         else if (op == "eq") r = (a == b) ? "1" : "0";
         else if (op == "anda") a &= b;
         else if (op == "ora") a |= b;
         else if (op == "xora") a ^= b;
         else if (op == "and") a = a & b;
         else if (op == "or") a = a | b;
         else if (op == "xor") a = a ^ b;
         else if (op == "not") a = ~a;
         else if (op == "shla") a <<= p;
         else if (op == "shl") a = a << p;
         else if (op == "shra") a >>= p;
         else if (op == "shr") a = a >> p;
         else return "unsupported-op:" + op;
      } catch (const std::out_of_range&)
      {
         r = "E:out_of_range";
      } catch (const std::overflow_error&)
      {
         r = "E:overflow_error";
      } catch (const std::exception&)
      {
         r = "E:other";
      }
      out += " " + r + ";" + observers(a);
   }
   return out + " ##";
}

} // namespace

int main(int argc, char** argv) { return vf::main_loop(argc, argv, run_case); }
