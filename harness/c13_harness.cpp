// Implementation harness for C13: calls the public celma::format::int2string /
// grouped_int2string (string and buffer variants) and stringTo<T> of the tree
// under check.  The conversion code itself is compiled from
// <repo>/src/library/format/detail/*.cpp (HARNESS['repo_sources']).
//
// case "a <bits> <u|s> <pattern hex> <sep hex> <psize> <gsize> <fill hex>":
//    str=<text> buf=<ret>:<whole block> gstr=<text> gbuf=<ret>:<whole block> rt=<pattern> ## len=<digits>
//    (the buffer variants get an exact-size heap block of psize / gsize bytes
//    filled with <fill>: ASan sees any byte written outside, the dump shows
//    every byte inside)
// case "p <bits> <u|s> <text hex>":  V:<pattern> | E:<exception>
// "--sweep <bits> <u|s> <first pattern hex> <count>": compares every value of
//    the range against snprintf, prints only mismatches (failing-input search).
#include <cinttypes>
#include <memory>
#include <stdexcept>
#include <type_traits>
#include "case_io.hpp"
#include "celma/format/int2string.hpp"
#include "celma/format/grouped_int2string.hpp"
#include "celma/format/string_to.hpp"
#include "celma/format/detail/int8_str_length.hpp"
#include "celma/format/detail/int16_str_length.hpp"
#include "celma/format/detail/int32_str_length.hpp"
#include "celma/format/detail/int64_str_length.hpp"

namespace {

using celma::format::int2string;
using celma::format::grouped_int2string;
using celma::format::stringTo;

template<typename T> std::string pattern(T v)
{
   using UT = std::make_unsigned_t<T>;
   char tmp[32];
   std::snprintf(tmp, sizeof tmp, "%0*" PRIx64, static_cast<int>(sizeof(T) * 2),
                 static_cast<uint64_t>(static_cast<UT>(v)));
   return tmp;
}

template<typename T> unsigned str_len_internal(T v)
{
   using UT = std::make_unsigned_t<T>;
   const UT a = v < 0 ? static_cast<UT>(UT(0) - static_cast<UT>(v)) : static_cast<UT>(v);
   using namespace celma::format::detail;
   if (sizeof(T) == 1) return int8_str_length(static_cast<uint8_t>(a));
   if (sizeof(T) == 2) return int16_str_length(static_cast<uint16_t>(a));
   if (sizeof(T) == 4) return int32_str_length(static_cast<uint32_t>(a));
   return int64_str_length(static_cast<uint64_t>(a));
}

template<typename T> std::string round_trip(const std::string& text)
{
   try
   {
      return pattern<T>(stringTo<T>(text));
   } catch (const std::invalid_argument&) { return "E:invalid_argument"; }
   catch (const std::out_of_range&) { return "E:out_of_range"; }
   catch (const std::exception&) { return "E:other"; }
}

template<typename T> std::string run_all(const std::vector<std::string>& w)
{
   using UT = std::make_unsigned_t<T>;
   const T value = static_cast<T>(static_cast<UT>(std::strtoull(w[4].c_str(), nullptr, 16)));
   const char sep = static_cast<char>(static_cast<unsigned char>(std::stoul(w[5], nullptr, 16)));
   const size_t psize = std::stoull(w[6]), gsize = std::stoull(w[7]);
   const int fill = static_cast<int>(std::stoul(w[8], nullptr, 16));
   std::string out;

   const std::string str = int2string(value);
   out += "str=" + vf::hex(str);
   {
      std::unique_ptr<char[]> blk(new char[psize]);
      std::memset(blk.get(), fill, psize);
      const int r = int2string(blk.get(), value);
      out += " buf=" + std::to_string(r) + ":" + vf::hex(reinterpret_cast<uint8_t*>(blk.get()), psize);
   }
   const std::string gstr = grouped_int2string(value, sep);
   out += " gstr=" + vf::hex(gstr);
   {
      std::unique_ptr<char[]> blk(new char[gsize]);
      std::memset(blk.get(), fill, gsize);
      const int r = grouped_int2string(blk.get(), value, sep);
      out += " gbuf=" + std::to_string(r) + ":" + vf::hex(reinterpret_cast<uint8_t*>(blk.get()), gsize);
   }
   out += " rt=" + round_trip<T>(str);
   out += " ## len=" + std::to_string(str_len_internal(value));
   return out;
}

template<typename T> std::string run_parse(const std::vector<std::string>& w)
{
   const std::string text = vf::unhexs(w[4]);
   const std::string r = round_trip<T>(text);
   return (r[0] == 'E' ? r : "V:" + r) + " ##";
}

template<typename FS> std::string dispatch(const std::vector<std::string>& w, FS f)
{
   const int bits = std::stoi(w[2]);
   const bool sg = w[3] == "s";
   switch (bits)
   {
   case 8:  return sg ? f(int8_t{}) : f(uint8_t{});
   case 16: return sg ? f(int16_t{}) : f(uint16_t{});
   case 32: return sg ? f(int32_t{}) : f(uint32_t{});
   case 64: return sg ? f(int64_t{}) : f(uint64_t{});
   default: return "bad-bits";
   }
}

std::string run_case(const std::vector<std::string>& w)
{
   if (w.size() == 9 && w[1] == "a")
      return dispatch(w, [&](auto t) { return run_all<decltype(t)>(w); });
   if (w.size() == 5 && w[1] == "p")
      return dispatch(w, [&](auto t) { return run_parse<decltype(t)>(w); });
   return "bad-case";
}

// ---- failing-input search over a range, against snprintf --------------------
std::string group_ref(const std::string& plain, char sep)
{
   const size_t start = plain[0] == '-' ? 1 : 0;
   std::string r = plain.substr(0, start);
   const size_t n = plain.size() - start;
   for (size_t i = 0; i < n; ++i)
   {
      if (i > 0 && (n - i) % 3 == 0) r += sep;
      r += plain[start + i];
   }
   return r;
}

bool buffer_ok(const char* arena, size_t asize, int ret, const std::string& want)
{
   if (ret != static_cast<int>(want.size())) return false;
   if (std::memcmp(arena + 8, want.c_str(), want.size() + 1) != 0) return false;
   for (size_t i = 0; i < 8; ++i) if (arena[i] != '\x5a') return false;
   for (size_t i = 8 + want.size() + 1; i < asize; ++i) if (arena[i] != '\x5a') return false;
   return true;
}

template<typename T> int sweep(uint64_t first, uint64_t count, char sep)
{
   using UT = std::make_unsigned_t<T>;
   char arena[64];
   char ref[32];
   uint64_t bad = 0;
   for (uint64_t k = 0; k < count; ++k)
   {
      const T value = static_cast<T>(static_cast<UT>(first + k));
      if (std::is_signed<T>::value) std::snprintf(ref, sizeof ref, "%" PRId64, static_cast<int64_t>(value));
      else std::snprintf(ref, sizeof ref, "%" PRIu64, static_cast<uint64_t>(value));
      const std::string want(ref), gwant = group_ref(want, sep);
      const char* what = nullptr;
      if (int2string(value) != want) what = "int2string";
      else if (grouped_int2string(value, sep) != gwant) what = "grouped_int2string";
      else
      {
         std::memset(arena, 0x5a, sizeof arena);
         int r = int2string(arena + 8, value);
         if (!buffer_ok(arena, sizeof arena, r, want)) what = "int2string(buffer)";
         else
         {
            std::memset(arena, 0x5a, sizeof arena);
            r = grouped_int2string(arena + 8, value, sep);
            if (!buffer_ok(arena, sizeof arena, r, gwant)) what = "grouped_int2string(buffer)";
            else if ((k & 15) == 0)
            {
               try { if (stringTo<T>(want) != value) what = "stringTo"; }
               catch (const std::exception&) { what = "stringTo"; }
            }
         }
      }
      if (what != nullptr && ++bad <= 5)
         std::printf("sweep-bad %s %s\n", pattern<T>(value).c_str(), what);
   }
   std::printf("sweep-done %" PRIu64 " %" PRIu64 "\n", count, bad);
   return 0;
}

} // namespace

int main(int argc, char** argv)
{
   if (argc == 6 && std::string(argv[1]) == "--sweep")
   {
      const int bits = std::atoi(argv[2]);
      const bool sg = std::string(argv[3]) == "s";
      const uint64_t first = std::strtoull(argv[4], nullptr, 16), count = std::strtoull(argv[5], nullptr, 10);
      if (bits == 32) return sg ? sweep<int32_t>(first, count, '\'') : sweep<uint32_t>(first, count, '\'');
      if (bits == 16) return sg ? sweep<int16_t>(first, count, '\'') : sweep<uint16_t>(first, count, '\'');
      if (bits == 64) return sg ? sweep<int64_t>(first, count, '\'') : sweep<uint64_t>(first, count, '\'');
      return sg ? sweep<int8_t>(first, count, '\'') : sweep<uint8_t>(first, count, '\'');
   }
   return vf::main_loop(argc, argv, run_case);
}
