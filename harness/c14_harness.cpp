// Implementation harness for C14: runs scripted histories of filter settings,
// log / destination creation and messages on the real celma::log::Logging,
// detail::Log, filter::Filters and ILogDest from the repository's working tree.
//
// case:  <id> <op>;<op>;...      (no blanks inside an operation)
//   P<i|e|r>                 Filters::setDuplicatePolicy( ignore|exception|replace)
//   L<log>                   Logging::findCreateLog( log)                    -> id<n>
//   D<log>/<dest>            getLog( log)->addDestination( dest, recorder)   -> ok | nolog
//                            (<log> = name, or #<ids>: the log is looked up by id, getLog( id_t))
//   F<log>[/<dest>]:<M|m|l><level 0..6>      maxLevel / minLevel / level
//   F<log>[/<dest>]:c<hex of the class list> classes( list)                  -> ok | E:<exception>
//   S<ids>:<level><class>    Logging::log( id_t, msg)                        -> deliveries
//   N<log>:<level><class>    Logging::log( name, msg)                        -> deliveries
//   Q<ids>:<level>           detail::discard_by_level( id_t, level)          -> q|E:.. (answer after ##)
//   R<log>:<level>           detail::discard_by_level( name, level)
//   T<ids>                   49 x S for every (level, class), 7 x Q for every level:
//                            '.' = consistent, 'X' = discarded although delivered, 'E' = exception
//   V<log>                   49 x N, 7 x R
//   M<log>                   49 x  LOG_LEVEL( name, <level>) << <class> << "x"   (the real macro)
//   I<ids>                   49 x  LOG_LEVEL( id_t, <level>) << <class> << "x"
// result: one token per operation; after "##": duplicate policy in effect and
// the type of the cached level filter of every log (internal observables).
#include <algorithm>
#include <memory>
#include <stdexcept>
#include <string>
#include <utility>
#include <vector>
#include <bitset>
#include <iosfwd>
#include <map>
#include <mutex>
#include <ostream>
#include <boost/scoped_ptr.hpp>
#include "case_io.hpp"
#define private public
#define protected public
#include "celma/log/filter/filters.hpp"
#include "celma/log/detail/i_log_dest.hpp"
#include "celma/log/detail/log.hpp"
#include "celma/log/logging.hpp"
#undef private
#undef protected
#include "celma/common/celma_exception.hpp"
#include "celma/log/detail/helper_function.hpp"
#include "celma/log/detail/log_msg.hpp"
#include "celma/log/log_macros.hpp"

namespace {

using celma::log::Logging;
using celma::log::LogLevel;
using celma::log::LogClass;
using celma::log::detail::LogMsg;
using celma::log::filter::Filters;
using celma::log::filter::detail::DuplicatePolicy;

std::vector<std::string> g_deliveries;

class Recorder final : public celma::log::detail::ILogDest
{
public:
   explicit Recorder( std::string tag): mTag( std::move( tag)) {}
private:
   void message( const LogMsg&) override { g_deliveries.push_back( mTag); }
   std::string mTag;
};

std::string exc_name( const std::exception& e)
{
   if (dynamic_cast<const std::out_of_range*>( &e)) return "E:out_of_range";
   if (dynamic_cast<const std::invalid_argument*>( &e)) return "E:invalid_argument";
   if (dynamic_cast<const std::runtime_error*>( &e)) return "E:runtime_error";
   if (dynamic_cast<const std::logic_error*>( &e)) return "E:logic_error";
   return "E:other";
}

LogMsg make_msg( int level, int cls)
{
   LogMsg m( "c14", "harness", 1);
   m.setLevel( static_cast<LogLevel>( level));
   m.setClass( static_cast<LogClass>( cls));
   m.setText( "x");
   return m;
}

std::string deliveries()
{
   if (g_deliveries.empty()) return "-";
   std::string r;
   for (auto& d : g_deliveries) r += (r.empty() ? "" : "+") + d;
   return r;
}

template<typename T> std::string send( const T& spec, int level, int cls)
{
   g_deliveries.clear();
   try
   {
      Logging::instance().log( spec, make_msg( level, cls));
      return deliveries();
   } catch (const std::exception& e) { return exc_name( e); }
}

template<typename T> std::string discard( const T& spec, int level)
{
   try
   {
      return celma::log::detail::discard_by_level( spec, static_cast<LogLevel>( level)) ? "d1" : "d0";
   } catch (const std::exception& e) { return exc_name( e); }
}

// run-length encoded table so that the result lines stay short.  The answers of the
// level pre-check are an internal observable (which level filter is consulted is not
// fixed by the property); the property observable is whether an answer "discard" was
// given for a level of which a message of this very table was delivered ('X').
std::string g_raw;   // raw pre-check answers of the case, printed after "##"

template<typename T> std::string table( const T& spec)
{
   std::string r = "t:";
   std::string last; int n = 0;
   bool delivered[7] = { false, false, false, false, false, false, false };
   auto flush = [&]() { if (n) { r += last + (n > 1 ? "*" + std::to_string( n) : "") + ","; } };
   for (int l = 0; l < 7; ++l)
      for (int c = 0; c < 7; ++c)
      {
         std::string s = send( spec, l, c);
         if (s != "-" && s.compare( 0, 2, "E:") != 0) delivered[l] = true;
         if (s == last) ++n; else { flush(); last = s; n = 1; }
      }
   flush();
   r += "q:";
   g_raw += " q=";
   for (int l = 0; l < 7; ++l)
   {
      const std::string d = discard( spec, l);
      g_raw += d == "d1" ? "1" : d == "d0" ? "0" : "E";
      r += d == "d1" ? (delivered[l] ? "X" : ".") : d == "d0" ? "." : "E";
   }
   return r;
}

// one message through the level-guarded macro: pre-check, StreamLog, Logging::log
template<typename T> std::string macro_send( const T& spec, int level, int cls)
{
   g_deliveries.clear();
   const LogClass lc = static_cast<LogClass>( cls);
   try
   {
      switch (level)
      {
      case 0: LOG_LEVEL( spec, undefined) << lc << "x"; break;
      case 1: LOG_LEVEL( spec, fatal) << lc << "x"; break;
      case 2: LOG_LEVEL( spec, error) << lc << "x"; break;
      case 3: LOG_LEVEL( spec, warning) << lc << "x"; break;
      case 4: LOG_LEVEL( spec, info) << lc << "x"; break;
      case 5: LOG_LEVEL( spec, debug) << lc << "x"; break;
      default: LOG_LEVEL( spec, fullDebug) << lc << "x"; break;
      }
      return deliveries();
   } catch (const std::exception& e) { return exc_name( e); }
}

template<typename T> std::string macro_table( const T& spec)
{
   std::string r = "m:";
   std::string last; int n = 0;
   auto flush = [&]() { if (n) { r += last + (n > 1 ? "*" + std::to_string( n) : "") + ","; } };
   for (int l = 0; l < 7; ++l)
      for (int c = 0; c < 7; ++c)
      {
         std::string s = macro_send( spec, l, c);
         if (s == last) ++n; else { flush(); last = s; n = 1; }
      }
   flush();
   return r;
}

const char* type_name( celma::log::filter::detail::IFilter* f)
{
   using FT = celma::log::filter::detail::IFilter::FilterTypes;
   if (f == nullptr) return "none";
   switch (f->filterType())
   {
   case FT::maxLevel: return "max";
   case FT::minLevel: return "min";
   case FT::level: return "level";
   default: return "other";
   }
}

// a log given by name, or by "#<ids>" through getLog( id_t)
celma::log::detail::Log* find_log( const std::string& spec)
{
   if (!spec.empty() && spec[0] == '#')
      return Logging::instance().getLog( static_cast<celma::log::id_t>( std::stoul( spec.substr( 1))));
   return Logging::instance().getLog( spec);
}

// the name of a log object (only for the tag of the recording destination)
std::string name_of( celma::log::detail::Log* lg)
{
   for (auto& ld : Logging::instance().mLogs) if (ld.mpLog == lg) return ld.mName;
   return "?";
}

std::string run_case( const std::vector<std::string>& w)
{
   Logging::reset();
   Filters::setDuplicatePolicy( DuplicatePolicy::ignore);
   g_raw.clear();
   std::string prop;
   bool dead = false;     // a crash is reported by the sanitizer, nothing to do here
   for (auto& o : vf::split( w.size() > 1 ? w[1] : "-", ';'))
   {
      if (o.empty() || dead) continue;
      std::string r;
      const std::string a = o.substr( 1);
      try
      {
         switch (o[0])
         {
         case 'P':
            Filters::setDuplicatePolicy( a == "i" ? DuplicatePolicy::ignore
               : a == "e" ? DuplicatePolicy::exception : DuplicatePolicy::replace);
            r = "ok";
            break;
         case 'L':
            r = "id" + std::to_string( Logging::instance().findCreateLog( a));
            break;
         case 'D':
         {
            auto p = a.find( '/');
            auto* lg = find_log( a.substr( 0, p));
            if (lg == nullptr) { r = "nolog"; break; }
            lg->addDestination( a.substr( p + 1), new Recorder( name_of( lg) + a.substr( p)));
            r = "ok";
            break;
         }
         case 'F':
         {
            auto colon = a.find( ':');
            const std::string tgt = a.substr( 0, colon), set = a.substr( colon + 1);
            auto p = tgt.find( '/');
            auto* lg = find_log( tgt.substr( 0, p));
            if (lg == nullptr) { r = "nolog"; break; }
            Filters* f = lg;
            if (p != std::string::npos) f = lg->getDestination( tgt.substr( p + 1));
            if (set[0] == 'c') f->classes( vf::unhexs( set.substr( 1)));
            else
            {
               const auto lv = static_cast<LogLevel>( set[1] - '0');
               if (set[0] == 'M') f->maxLevel( lv);
               else if (set[0] == 'm') f->minLevel( lv);
               else f->level( lv);
            }
            r = "ok";
            break;
         }
         case 'S': { auto c = a.find( ':'); r = send( static_cast<celma::log::id_t>( std::stoul( a.substr( 0, c))), a[c + 1] - '0', a[c + 2] - '0'); break; }
         case 'N': { auto c = a.find( ':'); r = send( a.substr( 0, c), a[c + 1] - '0', a[c + 2] - '0'); break; }
         case 'Q': { auto c = a.find( ':'); r = discard( static_cast<celma::log::id_t>( std::stoul( a.substr( 0, c))), a[c + 1] - '0'); break; }
         case 'R': { auto c = a.find( ':'); r = discard( a.substr( 0, c), a[c + 1] - '0'); break; }
         case 'T': r = table( static_cast<celma::log::id_t>( std::stoul( a))); break;
         case 'V': r = table( a); break;
         case 'M': r = macro_table( a); break;
         case 'I': r = macro_table( static_cast<celma::log::id_t>( std::stoul( a))); break;
         default: r = "?";
         }
      } catch (const std::exception& e) { r = exc_name( e); }
      if (r == "d0" || r == "d1") { g_raw += " q=" + r.substr( 1); r = "q"; }
      prop += (prop.empty() ? "" : " ") + r;
   }
   // internal observables
   std::string intl = "pol=";
   auto* pp = Filters::mpDuplicatePolicy.get();
   intl += pp == nullptr ? "null" : pp->policy() == DuplicatePolicy::ignore ? "i"
      : pp->policy() == DuplicatePolicy::exception ? "e" : "r";
   for (auto& ld : Logging::instance().mLogs)
      intl += std::string( " ") + ld.mName + "=" + type_name( ld.mpLog->mpLevelFilter);
   return prop + " ## " + intl + g_raw;
}

} // namespace

int main( int argc, char** argv) { return vf::main_loop( argc, argv, run_case); }
