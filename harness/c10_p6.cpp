// capacities [30, 254] (both objects) of the C10/C11 harness
#include "c10_impl.hpp"
namespace c10 {
std::string run_30_30(const std::vector<std::string>& w) { return run<30, 30>(w); }
std::string run_254_254(const std::vector<std::string>& w) { return run<254, 254>(w); }
}
