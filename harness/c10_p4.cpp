// capacities [10, 255] (both objects) of the C10/C11 harness
#include "c10_impl.hpp"
namespace c10 {
std::string run_10_10(const std::vector<std::string>& w) { return run<10, 10>(w); }
std::string run_255_255(const std::vector<std::string>& w) { return run<255, 255>(w); }
}
