// capacities [10, 255] of the C10/C11 harness
#include "c10_impl.hpp"
namespace c10 {
std::string run_10(const std::vector<std::string>& w) { return run<10>(w); }
std::string run_255(const std::vector<std::string>& w) { return run<255>(w); }
}
