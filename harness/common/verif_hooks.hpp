// Verification hook points (only seen by builds with -DCELMA_VERIF, i.e. the
// harnesses of /verif; the include path of those builds contains this directory).
//
// CELMA_VERIF_POINT( "name") in the library source expands to nothing in a
// normal build and, with CELMA_VERIF, to a call through the function pointer
// below (nullptr = no effect).  A harness installs a callback to hold a thread
// at a point until the schedule it wants to force has been reached.  The
// pointer is read with relaxed ordering so that the hook itself does not
// synchronise the threads under test (ThreadSanitizer runs install no blocking
// callback).
#ifndef CELMA_VERIF_HOOKS_HPP
#define CELMA_VERIF_HOOKS_HPP

#include <atomic>

namespace celma_verif {

using hook_fn = void (*)( const char* point);

inline std::atomic< hook_fn>  g_hook{ nullptr};

inline void set_hook( hook_fn f) { g_hook.store( f, std::memory_order_relaxed); }

inline void point( const char* name)
{
   hook_fn  f = g_hook.load( std::memory_order_relaxed);
   if (f != nullptr)
      f( name);
}

/// A hook point in the shape of an object: as a (guarded) data member it marks
/// a position in the initialisation order of a class.
class SchedPoint
{
public:
   explicit SchedPoint( const char* name) { point( name); }
};

} // namespace celma_verif

#ifndef CELMA_VERIF_POINT
#define CELMA_VERIF_POINT( name)  ::celma_verif::point( name)
#endif

#endif   // CELMA_VERIF_HOOKS_HPP
