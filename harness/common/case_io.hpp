// Common case reader / result writer for all implementation harnesses.
// A case file holds one case per line: "<id> <token> <token> ...".
// The harness prints "<id> <result>" per case and flushes, so that when a
// sanitizer kills the process the check knows which case was running.
#pragma once
#include <cstdint>
#include <cstdio>
#include <cstdlib>
#include <cstring>
#include <fstream>
#include <iostream>
#include <sstream>
#include <string>
#include <vector>
#include <unistd.h>

namespace vf {

inline std::vector<std::string> split(const std::string& s, char c)
{
   std::vector<std::string> r;
   if (s.empty() || s == "-") return r;
   std::string cur;
   for (char ch : s) { if (ch == c) { r.push_back(cur); cur.clear(); } else cur += ch; }
   r.push_back(cur);
   return r;
}

inline std::vector<std::string> words(const std::string& s)
{
   std::vector<std::string> r; std::istringstream is(s); std::string w;
   while (is >> w) r.push_back(w);
   return r;
}

inline std::vector<uint8_t> unhex(const std::string& s)
{
   std::vector<uint8_t> r;
   if (s == "-") return r;
   for (size_t i = 0; i + 1 < s.size(); i += 2)
      r.push_back(static_cast<uint8_t>(std::stoi(s.substr(i, 2), nullptr, 16)));
   return r;
}

inline std::string hex(const uint8_t* p, size_t n)
{
   if (n == 0) return "-";
   static const char* d = "0123456789abcdef";
   std::string r;
   for (size_t i = 0; i < n; ++i) { r += d[p[i] >> 4]; r += d[p[i] & 15]; }
   return r;
}
inline std::string hex(const std::vector<uint8_t>& v) { return hex(v.data(), v.size()); }
inline std::string hex(const std::string& v) { return hex(reinterpret_cast<const uint8_t*>(v.data()), v.size()); }
inline std::string unhexs(const std::string& s) { auto v = unhex(s); return std::string(v.begin(), v.end()); }

// main loop: argv[1] = case file, optional argv[2] = id of the first case to run
// (everything before it is skipped: used to continue after a crash).
template<typename F> int main_loop(int argc, char** argv, F run_case)
{
   if (argc < 2) { std::fprintf(stderr, "usage: %s <case file> [first-id]\n", argv[0]); return 2; }
   std::ifstream in(argv[1]);
   std::string skip_until = argc > 2 ? argv[2] : "";
   std::string line;
   while (std::getline(in, line))
   {
      auto w = words(line);
      if (w.empty()) continue;
      if (!skip_until.empty()) { if (w[0] != skip_until) continue; skip_until.clear(); }
      std::fprintf(stderr, "@case %s\n", w[0].c_str());
      // watchdog: a case that does not come back (non-termination in the code under test) ends the process
      // with SIGALRM; the check records the case as CRASH:timeout and continues with the next one
      static const unsigned limit = std::getenv("VERIF_CASE_TIMEOUT") ? std::atoi(std::getenv("VERIF_CASE_TIMEOUT")) : 120;
      ::alarm(limit);
      std::string res = run_case(w);
      ::alarm(0);
      std::printf("%s %s\n", w[0].c_str(), res.c_str());
      std::fflush(stdout);
   }
   return 0;
}

} // namespace vf
