// capacity pairs [(1, 3), (3, 1), (2, 20), (20, 2)] (object / other object) of the C10/C11 harness
#include "c10_impl.hpp"
namespace c10 {
std::string run_1_3(const std::vector<std::string>& w) { return run<1, 3>(w); }
std::string run_3_1(const std::vector<std::string>& w) { return run<3, 1>(w); }
std::string run_2_20(const std::vector<std::string>& w) { return run<2, 20>(w); }
std::string run_20_2(const std::vector<std::string>& w) { return run<20, 2>(w); }
}
