// capacity pairs [(3, 20), (20, 3), (3, 30), (30, 3)] (object / other object) of the C10/C11 harness
#include "c10_impl.hpp"
namespace c10 {
std::string run_3_20(const std::vector<std::string>& w) { return run<3, 20>(w); }
std::string run_20_3(const std::vector<std::string>& w) { return run<20, 3>(w); }
std::string run_3_30(const std::vector<std::string>& w) { return run<3, 30>(w); }
std::string run_30_3(const std::vector<std::string>& w) { return run<30, 3>(w); }
}
