// Implementation harness for C15: runs histories of messages and restarts on the
// real celma::log::files::Counted / MaxSize policies through files::Handler, in a
// private directory below /verif/.work/C15, and dumps every generation file after
// every event.
//
// case:  <id> <C|M> <limit> <generations> <event>,<event>,...
//   r        restart: destroy the handler (and its policy), create them again
//   w<text>  write a message with this text (letters only)
// result: one token per event: the content of the generation files 0 .. generations
//   (one more than configured, to see strays): "<n>=<lines, each ended by ','>" or
//   "<n>!" when the file does not exist, joined by ';'.  An event that throws gives
//   "E:<exception>" and ends the history.  After "##" per event: the policy's counter
//   (mNumberOfEntries resp. mCurrentFilesize) - an internal observable.
#include <dirent.h>
#include <sys/stat.h>
#include <unistd.h>
#include <fstream>
#include <memory>
#include <mutex>
#include <sstream>
#include <stdexcept>
#include <string>
#include <vector>
#include "case_io.hpp"
#define private public
#define protected public
#include "celma/log/files/policy_base.hpp"
#include "celma/log/files/counted.hpp"
#include "celma/log/files/max_size.hpp"
#include "celma/log/files/handler.hpp"
#undef private
#undef protected
#include "celma/log/detail/i_format_stream.hpp"
#include "celma/log/detail/log_msg.hpp"
#include "celma/log/filename/creator.hpp"
#include "celma/log/filename/definition.hpp"

namespace {

namespace clf = celma::log::files;
namespace clfn = celma::log::filename;
using celma::log::detail::LogMsg;

std::string g_dir;

// the message text and nothing else (the default format adds fields and a newline)
class TextOnly final : public celma::log::detail::IFormatStream
{
private:
   void format( std::ostream& out, const LogMsg& msg) const override { out << msg.getText(); }
};

void clean_dir()
{
   if (DIR* d = ::opendir( g_dir.c_str()))
   {
      while (dirent* e = ::readdir( d))
      {
         const std::string n = e->d_name;
         if (n != "." && n != "..") ::unlink( (g_dir + "/" + n).c_str());
      }
      ::closedir( d);
   }
}

std::string dump( int gens)
{
   std::string r;
   for (int g = 0; g <= gens; ++g)
   {
      const std::string name = g_dir + "/log." + std::to_string( g);
      std::ifstream in( name, std::ios::binary);
      if (!r.empty()) r += ';';
      r += std::to_string( g);
      if (!in) { r += '!'; continue; }
      r += '=';
      std::stringstream ss; ss << in.rdbuf();
      for (char c : ss.str()) r += c == '\n' ? ',' : c;
   }
   // anything else in the directory?
   int others = 0;
   if (DIR* d = ::opendir( g_dir.c_str()))
   {
      while (dirent* e = ::readdir( d))
      {
         const std::string n = e->d_name;
         if (n == "." || n == "..") continue;
         bool known = false;
         for (int g = 0; g <= gens; ++g) if (n == "log." + std::to_string( g)) known = true;
         if (!known) ++others;
      }
      ::closedir( d);
   }
   if (others) r += ";stray:" + std::to_string( others);
   return r;
}

std::string exc_name( const std::exception& e)
{
   if (dynamic_cast<const std::invalid_argument*>( &e)) return "E:invalid_argument";
   if (dynamic_cast<const std::runtime_error*>( &e)) return "E:runtime_error";
   if (dynamic_cast<const std::logic_error*>( &e)) return "E:logic_error";
   return "E:other";
}

size_t counter_of( clf::Counted* p) { return p->mNumberOfEntries; }
size_t counter_of( clf::MaxSize* p) { return p->mCurrentFilesize; }

template<typename P> std::string run( size_t limit, int gens, const std::vector<std::string>& events)
{
   clean_dir();
   clfn::Definition def;
   {
      clfn::Creator creator( def);
      creator << std::string( g_dir + "/log.") << clfn::number;
   }
   std::unique_ptr<clf::Handler<P>> h;
   std::string prop, intl;
   for (auto& ev : events)
   {
      if (ev.empty()) continue;
      std::string r;
      try
      {
         if (ev[0] == 'r')
         {
            h.reset();
            h.reset( new clf::Handler<P>( new P( def, limit, gens)));
            h->setFormatter( new TextOnly);
         } else
         {
            if (!h) throw std::logic_error( "no handler");
            LogMsg m( "c15", "harness", 1);
            m.setText( ev.substr( 1));
            h->handleMessage( m);
         }
         r = dump( gens);
         intl += (intl.empty() ? "" : " ") + std::to_string( counter_of( h->mpFilePolicy.get()));
      } catch (const std::exception& e)
      {
         prop += (prop.empty() ? "" : " ") + exc_name( e);
         break;
      }
      prop += (prop.empty() ? "" : " ") + r;
   }
   h.reset();
   return prop + " ## " + intl;
}

std::string run_case( const std::vector<std::string>& w)
{
   if (w.size() < 5) return "malformed";
   const size_t limit = std::stoull( w[2]);
   const int gens = std::stoi( w[3]);
   const auto events = vf::split( w[4], ',');
   if (w[1] == "C") return run<clf::Counted>( limit, gens, events);
   return run<clf::MaxSize>( limit, gens, events);
}

} // namespace

int main( int argc, char** argv)
{
   ::mkdir( "/verif/.work", 0755);
   ::mkdir( "/verif/.work/C15", 0755);
   g_dir = "/verif/.work/C15/fs" + std::to_string( ::getpid());
   ::mkdir( g_dir.c_str(), 0755);
   const int rc = vf::main_loop( argc, argv, run_case);
   clean_dir();
   ::rmdir( g_dir.c_str());
   return rc;
}
