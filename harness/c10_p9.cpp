// capacity pairs [(20, 255), (255, 20), (3, 256)] (object / other object) of the C10/C11 harness
#include "c10_impl.hpp"
namespace c10 {
std::string run_20_255(const std::vector<std::string>& w) { return run<20, 255>(w); }
std::string run_255_20(const std::vector<std::string>& w) { return run<255, 20>(w); }
std::string run_3_256(const std::vector<std::string>& w) { return run<3, 256>(w); }
}
