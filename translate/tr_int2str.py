"""Translator for property C13: reads the digit-count decision trees
(celma/format/detail/intN_str_length.hpp) and the fall-through switches of
convert() (library/format/detail/[grouped_]intN_to_string.cpp) of the C++
source and regenerates coq/Int2Str/Int2StrGen.v in the IR of Int2StrIR.v.

Everything the small parser does not recognise raises TranslateError: the
framework then reports a broken tie (the theorems would be about tables that
are not what the code says).

What is read:
  * intN_str_length(): the type of the static_cast, the nested
    if (value CMP LIT) / else / return / ?: decision tree -> dtree
  * convert(): parameter types, the optional 'uint8_t num_digits = 0;', the
    switch over result_len: labels in source order, the statements of every
    label as IR statements
  * checkAddGroupChar(): the two constants of
    'if (++num_digits == L) { *buffer-- = group_char; num_digits = R; }'
What is not read (tied by the correspondence check instead): the wrappers
(uintNtoString, intNnegToString, grouped..., the inline dispatch in the
headers)."""
import re
from pathlib import Path

WIDTHS = (8, 16, 32, 64)


class TranslateError(Exception):
    pass


TOKEN = re.compile(r"""\[\[|\]\]|--|\+\+|>=|<=|==|!=|/=|%=|\+=|-=|\*=|<<|>>|::|->|&&|\|\|
                       |'(?:\\.|[^'\\])'|"(?:\\.|[^"\\])*"|[A-Za-z_]\w*|\d[\w']*|\S""", re.X)


def strip_comments(text):
    out = []
    i = 0
    n = len(text)
    while i < n:
        c = text[i]
        if text.startswith('//', i):
            j = text.find('\n', i)
            i = n if j < 0 else j
        elif text.startswith('/*', i):
            j = text.find('*/', i + 2)
            if j < 0:
                raise TranslateError('unterminated comment')
            i = j + 2
            out.append(' ')
        elif c == '"' or c == "'":
            j = i + 1
            while j < n and text[j] != c:
                j += 2 if text[j] == '\\' else 1
            out.append(text[i:j + 1])
            i = j + 1
        else:
            out.append(c)
            i += 1
    return ''.join(out)


def tokenize(text):
    text = strip_comments(text)
    # preprocessor lines carry no code here (#include, #ifndef guards); anything else is refused
    lines = []
    for ln in text.split('\n'):
        s = ln.strip()
        if s.startswith('#'):
            if not re.match(r'#\s*(include|ifndef|define\s+\w+\s*$|endif|pragma\s+once)', s):
                raise TranslateError('unexpected preprocessor line: ' + s)
            continue
        lines.append(ln)
    return TOKEN.findall('\n'.join(lines))


def number(tok):
    m = re.fullmatch(r"(\d[\d']*)([uUlL]*)", tok)
    if not m:
        raise TranslateError('not a decimal literal: ' + tok)
    digits = m.group(1).replace("'", '')
    if len(digits) > 1 and digits[0] == '0':
        raise TranslateError('octal literal: ' + tok)
    return int(digits)


def match_brace(toks, i, open_='{', close='}'):
    """toks[i] == open_; returns index of the matching close"""
    if toks[i] != open_:
        raise TranslateError('expected %s, got %s' % (open_, toks[i]))
    depth = 0
    for j in range(i, len(toks)):
        if toks[j] == open_:
            depth += 1
        elif toks[j] == close:
            depth -= 1
            if depth == 0:
                return j
    raise TranslateError('unbalanced ' + open_)


def find_function(toks, name):
    """returns (params tokens, body tokens) of the only definition of <name>"""
    found = []
    for i, t in enumerate(toks):
        if t == name and i + 1 < len(toks) and toks[i + 1] == '(':
            j = match_brace(toks, i + 1, '(', ')')
            if j + 1 < len(toks) and toks[j + 1] == '{':
                k = match_brace(toks, j + 1)
                found.append((toks[i + 2:j], toks[j + 2:k], toks[max(0, i - 12):i]))
    if len(found) != 1:
        raise TranslateError('expected exactly one definition of %s, found %d' % (name, len(found)))
    return found[0]


# ---------------------------------------------------------------------------
# decision trees

class P:
    def __init__(self, toks):
        self.t = toks
        self.i = 0

    def peek(self):
        return self.t[self.i] if self.i < len(self.t) else None

    def next(self):
        if self.i >= len(self.t):
            raise TranslateError('unexpected end of function body')
        self.i += 1
        return self.t[self.i - 1]

    def expect(self, tok):
        got = self.next()
        if got != tok:
            raise TranslateError('expected %r, got %r (near %s)' % (tok, got, ' '.join(self.t[max(0, self.i - 6):self.i + 3])))

    def done(self):
        return self.i >= len(self.t)


CMPS = ('>=', '>', '<', '<=')


def parse_expr(p, var):
    left = parse_cmp(p, var)
    if p.peek() == '?':
        p.next()
        a = parse_expr(p, var)
        p.expect(':')
        b = parse_expr(p, var)
        return ('tern', left, a, b)
    return left


def parse_cmp(p, var):
    a = parse_primary(p, var)
    if p.peek() in CMPS:
        op = p.next()
        b = parse_primary(p, var)
        return ('cmp', a, op, b)
    return a


def parse_primary(p, var):
    t = p.next()
    if t == '(':
        e = parse_expr(p, var)
        p.expect(')')
        return e
    if t == var:
        return ('var',)
    if re.match(r'\d', t):
        return ('num', number(t))
    raise TranslateError('unexpected token in expression: %r' % t)


def cond_to_ge(c):
    """condition -> (constant, swapped): value >= constant selects the first branch unless swapped"""
    if c[0] != 'cmp':
        raise TranslateError('condition is not a comparison: %r' % (c,))
    _, a, op, b = c
    if a == ('var',) and b[0] == 'num':
        k = b[1]
    elif b == ('var',) and a[0] == 'num':
        k = a[1]
        op = {'>=': '<=', '>': '<', '<': '>', '<=': '>='}[op]
    else:
        raise TranslateError('comparison must be between the value and a literal')
    if op == '>=':
        return k, False
    if op == '>':
        return k + 1, False
    if op == '<':
        return k, True
    return k + 1, True       # <=


def expr_to_tree(e):
    if e[0] == 'num':
        if e[1] > 255:
            raise TranslateError('returned digit count %d does not fit the uint8_t return type' % e[1])
        return ('Ret', e[1])
    if e[0] == 'tern':
        k, sw = cond_to_ge(e[1])
        a, b = expr_to_tree(e[2]), expr_to_tree(e[3])
        return ('IfGe', k, b, a) if sw else ('IfGe', k, a, b)
    raise TranslateError('return expression is neither a literal nor ?: : %r' % (e,))


def parse_stmt(p, var):
    t = p.peek()
    if t == '{':
        p.next()
        stmts = []
        while p.peek() != '}':
            stmts.append(parse_stmt(p, var))
        p.expect('}')
        return ('block', stmts)
    if t == 'if':
        p.next()
        p.expect('(')
        c = parse_expr(p, var)
        p.expect(')')
        a = parse_stmt(p, var)
        b = None
        if p.peek() == 'else':
            p.next()
            b = parse_stmt(p, var)
        return ('if', c, a, b)
    if t == 'return':
        p.next()
        e = parse_expr(p, var)
        p.expect(';')
        return ('return', e)
    raise TranslateError('unexpected statement starting with %r in the digit-count function' % t)


def flatten(s):
    return [x for y in s[1] for x in flatten(y)] if s[0] == 'block' else [s]


def stmts_to_tree(stmts):
    """tree of a statement list; falling off the end is refused"""
    if not stmts:
        raise TranslateError('digit-count function can fall off its end without return')
    s, rest = stmts[0], stmts[1:]
    if s[0] == 'return':
        return expr_to_tree(s[1])
    if s[0] == 'if':
        k, sw = cond_to_ge(s[1])
        a = stmts_to_tree(flatten(s[2]) + rest)
        b = stmts_to_tree((flatten(s[3]) if s[3] is not None else []) + rest)
        return ('IfGe', k, b, a) if sw else ('IfGe', k, a, b)
    raise TranslateError('unexpected statement %r' % (s,))


def parse_tree_file(path, n):
    toks = tokenize(Path(path).read_text())
    params, body, before = find_function(toks, 'int%d_str_length' % n)
    if before[-1] != 'uint8_t':
        raise TranslateError('int%d_str_length: return type is not uint8_t' % n)
    if len(params) != 2:
        raise TranslateError('int%d_str_length: unexpected parameter list %s' % (n, ' '.join(params)))
    arg = params[1]
    # const auto value = static_cast< uintK_t>( orig_value);
    head = ['const', 'auto', None, '=', 'static_cast', '<', None, '>', '(', arg, ')', ';']
    if len(body) < len(head) or any(h is not None and h != b for h, b in zip(head, body)):
        raise TranslateError('int%d_str_length: first statement is not the cast of the argument' % n)
    var = body[2]
    m = re.fullmatch(r'uint(8|16|32|64)_t', body[6])
    if not m:
        raise TranslateError('int%d_str_length: cast to %s' % (n, body[6]))
    cast_bits = int(m.group(1))
    p = P(body[len(head):])
    stmts = []
    while not p.done():
        stmts.append(parse_stmt(p, var))
    tree = stmts_to_tree([x for s in stmts for x in flatten(s)])
    return cast_bits, tree


# ---------------------------------------------------------------------------
# switches

def parse_check_add(toks):
    """checkAddGroupChar: returns (limit, reset) or None when the file has no such function"""
    if 'checkAddGroupChar' not in toks:
        return None
    params, body, before = find_function(toks, 'checkAddGroupChar')
    if before[-1] != 'void':
        raise TranslateError('checkAddGroupChar: return type')
    # char*& buffer, uint8_t& num_digits, char group_char
    want_sig = ['char', '*', '&', None, ',', 'uint8_t', '&', None, ',', 'char', None]
    if len(params) != len(want_sig) or any(w is not None and w != q for w, q in zip(want_sig, params)):
        raise TranslateError('checkAddGroupChar: unexpected signature ' + ' '.join(params))
    buf, nd, gc = params[3], params[7], params[10]
    want = ['if', '(', '++', nd, '==', None, ')', '{', '*', buf, '--', '=', gc, ';', nd, '=', None, ';', '}']
    if len(body) != len(want) or any(w is not None and w != q for w, q in zip(want, body)):
        raise TranslateError('checkAddGroupChar: unexpected body ' + ' '.join(body))
    limit, reset = number(body[5]), number(body[16])
    if limit > 255 or reset > 255:
        raise TranslateError('checkAddGroupChar: constant does not fit uint8_t')
    return limit, reset


def parse_switch_file(path, n, grouped):
    toks = tokenize(Path(path).read_text())
    cag = parse_check_add(toks)
    params, body, before = find_function(toks, 'convert')
    if before[-1] != 'void':
        raise TranslateError('convert: return type')
    # char* buffer, uintN_t value, uint8_t result_len [, char group_char]
    sig = ['char', '*', None, ',', None, None, ',', 'uint8_t', None]
    if len(params) not in (9, 12) or any(w is not None and w != q for w, q in zip(sig, params)):
        raise TranslateError('convert: unexpected signature ' + ' '.join(params))
    buf, vtype, val, rlen = params[2], params[4], params[5], params[8]
    gc = None
    if len(params) == 12:
        if params[9:11] != [',', 'char']:
            raise TranslateError('convert: unexpected signature ' + ' '.join(params))
        gc = params[11]
    m = re.fullmatch(r'uint(8|16|32|64)_t', vtype)
    if not m:
        raise TranslateError('convert: value type ' + vtype)
    val_bits = int(m.group(1))
    p = P(body)
    nd = None
    if p.peek() == 'uint8_t':
        p.next()
        nd = p.next()
        p.expect('=')
        if number(p.next()) != 0:
            raise TranslateError('convert: digit counter not initialised with 0')
        p.expect(';')
    p.expect('switch')
    p.expect('(')
    if p.next() != rlen:
        raise TranslateError('convert: switch is not over the length parameter')
    p.expect(')')
    p.expect('{')
    cases = []
    seen = set()
    while p.peek() != '}':
        t = p.next()
        if t == 'case':
            lab = number(p.next())
            if lab > 255:
                raise TranslateError('convert: label does not fit uint8_t')
            p.expect(':')
        elif t == 'default':
            lab = None
            p.expect(':')
        else:
            raise TranslateError('convert: statement before the first label: %r' % t)
        if lab in seen:
            raise TranslateError('convert: duplicate label')
        seen.add(lab)
        stmts = []
        while p.peek() not in ('case', 'default', '}'):
            stmts += parse_conv_stmt(p, buf, val, nd, gc, cag)
        cases.append((lab, stmts))
    p.expect('}')
    if not p.done():
        raise TranslateError('convert: code after the switch')
    return val_bits, cases, cag


def parse_conv_stmt(p, buf, val, nd, gc, cag):
    def take(pattern):
        """try to match the token pattern at the cursor (None = wildcard); consumes on success"""
        seg = p.t[p.i:p.i + len(pattern)]
        if len(seg) == len(pattern) and all(a == b for a, b in zip(pattern, seg)):
            p.i += len(pattern)
            return True
        return False
    if take(['[[', 'fallthrough', ']]', ';']):
        return []
    if take([';']):
        return []
    for dec in (True, False):
        lhs = ['*', buf] + (['--'] if dec else []) + ['=']
        if take(lhs + ["'0'", '+', '(', val, '%', '10', ')', ';']) or take(lhs + ["'0'", '+', val, '%', '10', ';']):
            return ['SStoreMod ' + ('true' if dec else 'false')]
        if take(lhs + ["'0'", '+', val, ';']):
            return ['SStoreVal ' + ('true' if dec else 'false')]
    if take([val, '/=', '10', ';']) or take([val, '=', val, '/', '10', ';']):
        return ['SDiv10']
    if nd is not None and (take(['++', nd, ';']) or take([nd, '++', ';'])):
        return ['SIncDigits']
    if nd is not None and gc is not None and take(['checkAddGroupChar', '(', buf, ',', nd, ',', gc, ')', ';']):
        if cag is None:
            raise TranslateError('convert calls checkAddGroupChar which is not defined in the file')
        return ['SCheckGroup']
    raise TranslateError('convert: unrecognised statement near: ' + ' '.join(p.t[p.i:p.i + 12]))


# ---------------------------------------------------------------------------
# output

def tree_coq(t):
    if t[0] == 'Ret':
        return '(Ret %d)' % t[1]
    return '(IfGe %d %s %s)' % (t[1], tree_coq(t[2]), tree_coq(t[3]))


def switch_coq(cases):
    rows = []
    for lab, stmts in cases:
        rows.append('   (%s, [%s])' % ('Some %d' % lab if lab is not None else 'None', '; '.join(stmts)))
    return '[\n' + ';\n'.join(rows) + ' ]'


def translate(repo, coq):
    from vf import write_if_changed   # lib/vf.py (on sys.path when run by ./check)
    repo, coq = Path(repo), Path(coq)
    out = ['(** GENERATED by translate/tr_int2str.py from the C++ source of the tree under check -',
           '    do not edit; regenerated on every ./check C13.  Decision trees of',
           '    celma/format/detail/intN_str_length.hpp, switch tables of convert() in',
           '    library/format/detail/[grouped_]intN_to_string.cpp, constants of checkAddGroupChar(). *)',
           'From Coq Require Import List NArith.', 'Import ListNotations.',
           'Require Import Celma.Int2Str.Int2StrIR.', 'Local Open Scope N_scope.', '']
    info = []
    for n in WIDTHS:
        tb, tree = parse_tree_file(repo / 'src/celma/format/detail' / ('int%d_str_length.hpp' % n), n)
        vb, sw, cag0 = parse_switch_file(repo / 'src/library/format/detail' / ('int%d_to_string.cpp' % n), n, False)
        gvb, gsw, cag = parse_switch_file(repo / 'src/library/format/detail' / ('grouped_int%d_to_string.cpp' % n), n, True)
        if any('SCheckGroup' in s or 'SIncDigits' in s for _, ss in sw for s in ss) and cag0 is None:
            raise TranslateError('plain convert uses the group machinery')
        pl, pr = cag0 if cag0 is not None else (0, 0)
        gl, gr = cag if cag is not None else (0, 0)
        out += ['Definition tree_%d : dtree :=\n  %s.' % (n, tree_coq(tree)),
                'Definition switch_%d : switch :=\n  %s.' % (n, switch_coq(sw)),
                'Definition gswitch_%d : switch :=\n  %s.' % (n, switch_coq(gsw)),
                'Definition conv_%d : conv :=\n  {| cv_bits := %d; cv_tbits := %d; cv_tree := tree_%d;\n'
                '     cv_plain := {| sw_vbits := %d; sw_cases := switch_%d; sw_glimit := %d; sw_greset := %d |};\n'
                '     cv_grouped := {| sw_vbits := %d; sw_cases := gswitch_%d; sw_glimit := %d; sw_greset := %d |} |}.'
                % (n, n, tb, n, vb, n, pl, pr, gvb, n, gl, gr), '']
        info.append('%d: %d tree leaves, %d/%d labels' % (n, str(tree).count('Ret'), len(sw), len(gsw)))
    changed = write_if_changed(coq / 'Int2Str' / 'Int2StrGen.v', '\n'.join(out))
    return 'Int2StrGen.v %s (%s)' % ('rewritten' if changed else 'unchanged', '; '.join(info))


if __name__ == '__main__':
    import sys
    sys.path.insert(0, '/verif/lib')
    print(translate(sys.argv[1] if len(sys.argv) > 1 else '/repo', '/verif/coq'))
