"""Translator for C14: regenerates coq/Log/FilterOpsGen.v from the C++ source.

Extracted (regex level, every pattern must match exactly once, otherwise the
translator fails and the check reports a broken tie):
  * the comparison operator of LogFilterMaxLevel/MinLevel/Level::processLevel and
    of LogFilterLevel::pass  (`return l <op> mXxx;` / `return msg.getLevel() <op> mLevel;`)
  * the enumerator order of LogLevel, LogClass, IFilter::FilterTypes, DuplicatePolicy
  * the filter types IFilter::isLevelFilter() names
  * the texts of logClass2text() and the loop bound of text2logClass()
  * the declared size of LogFilterClasses::mClassSelection
"""
import re
from pathlib import Path

OPS = {'<=': 'OpLe', '<': 'OpLt', '>=': 'OpGe', '>': 'OpGt', '==': 'OpEq', '!=': 'OpNe'}


def _strip_comments(s):
    s = re.sub(r'/\*[\s\S]*?\*/', '', s)
    return re.sub(r'//[^\n]*', '', s)


def _one(pat, text, what):
    m = re.findall(pat, text)
    if len(m) != 1:
        raise ValueError('%s: pattern matched %d times' % (what, len(m)))
    return m[0]


def _enum(text, name):
    body = _one(r'enum\s+class\s+' + name + r'\s*\{([^}]*)\}', text, 'enum ' + name)
    names = []
    for part in body.split(','):
        part = part.strip()
        if not part:
            continue
        if '=' in part:
            raise ValueError('enum %s: explicit value in "%s"' % (name, part))
        if not re.fullmatch(r'[A-Za-z_][A-Za-z0-9_]*', part):
            raise ValueError('enum %s: cannot parse "%s"' % (name, part))
        names.append(part)
    return names


def _op(text, cls, func, lhs, member):
    body = _one(r'\b' + cls + r'::' + func + r'\s*\([^)]*\)\s*const\s*\{([^}]*)\}', text, cls + '::' + func)
    body = ' '.join(body.split())
    m = re.fullmatch(r'return\s+' + lhs + r'\s*(<=|>=|==|!=|<|>)\s*' + member + r'\s*;', body)
    if not m:
        raise ValueError('%s::%s: body "%s" is not a single comparison' % (cls, func, body))
    return OPS[m.group(1)]


def _coq_list(names):
    return '[' + '; '.join('"%s"' % n for n in names) + ']'


def generate(repo):
    src = Path(repo) / 'src'
    rd = lambda p: _strip_comments((src / p).read_text())
    fmax = rd('celma/log/filter/detail/log_filter_max_level.hpp')
    fmin = rd('celma/log/filter/detail/log_filter_min_level.hpp')
    flev = rd('celma/log/filter/detail/log_filter_level.hpp')
    fcls = rd('celma/log/filter/detail/log_filter_classes.hpp')
    ifil = rd('celma/log/filter/detail/i_filter.hpp')
    defs = rd('celma/log/detail/log_defs.hpp')
    dupl = rd('celma/log/filter/detail/duplicate_policy.hpp')

    op_max = _op(fmax, 'LogFilterMaxLevel', 'processLevel', 'l', 'mMaxLevel')
    op_min = _op(fmin, 'LogFilterMinLevel', 'processLevel', 'l', 'mMinLevel')
    op_lev = _op(flev, 'LogFilterLevel', 'processLevel', 'l', 'mLevel')
    op_levpass = _op(flev, 'LogFilterLevel', 'pass', r'msg\.getLevel\(\)', 'mLevel')
    for cls, txt in (('LogFilterMaxLevel', fmax), ('LogFilterMinLevel', fmin)):
        body = ' '.join(_one(r'\b' + cls + r'::pass\s*\([^)]*\)\s*const\s*\{([^}]*)\}', txt, cls + '::pass').split())
        if body != 'return processLevel( msg.getLevel());':
            raise ValueError('%s::pass is not "return processLevel( msg.getLevel());": %s' % (cls, body))
    body = ' '.join(_one(r'LogFilterClasses::pass\s*\([^)]*\)\s*const\s*\{([^}]*)\}', fcls, 'LogFilterClasses::pass').split())
    if body != 'return mClassSelection[ static_cast< size_t>( msg.getClass())];':
        raise ValueError('LogFilterClasses::pass: unexpected body: ' + body)

    levels = _enum(defs, 'LogLevel')
    classes = _enum(defs, 'LogClass')
    ftypes = _enum(ifil, 'FilterTypes')
    pols = _enum(dupl, 'DuplicatePolicy')

    body = ' '.join(_one(r'IFilter::isLevelFilter\s*\([^)]*\)\s*\{([^}]*)\}', ifil, 'isLevelFilter').split())
    m = re.fullmatch(r'return\s+(.*);', body)
    if not m:
        raise ValueError('isLevelFilter: unexpected body')
    lf = []
    for t in m.group(1).split('||'):
        mm = re.fullmatch(r'\(\s*ft\s*==\s*FilterTypes::(\w+)\s*\)', t.strip())
        if not mm:
            raise ValueError('isLevelFilter: cannot parse "%s"' % t)
        lf.append(mm.group(1))

    m = _one(r'std::bitset<\s*static_cast<\s*size_t\s*>\(\s*LogClass::(\w+)\s*\)\s*(?:\+\s*(\d+)\s*)?>\s*mClassSelection',
             fcls, 'bitset size')
    bits = classes.index(m[0]) + (int(m[1]) if m[1] else 0)

    sw = _one(r'logClass2text\s*\([^)]*\)\s*\{\s*switch\s*\(\s*lc\s*\)\s*\{([\s\S]*?)\}\s*\}', defs, 'logClass2text')
    texts = {}
    default = None
    pending_default = False
    for lab, val in re.findall(r'(case\s+LogClass::\w+|default)\s*:\s*(?:return\s+"([^"]*)"\s*;)?', sw):
        if lab == 'default':
            pending_default = True
            if val:
                default = val
                pending_default = False
            continue
        name = lab.split('::')[1]
        if not val:
            raise ValueError('logClass2text: case without return: ' + name)
        texts[name] = val
        if pending_default:
            default = val
            pending_default = False
    if default is None:
        raise ValueError('logClass2text: no default text')
    class_texts = [texts.get(c, default) for c in classes]
    bound = _one(r'text2logClass\s*\([^)]*\)\s*\{\s*for\s*\(\s*int\s+i\s*=\s*0\s*;\s*i\s*<=\s*static_cast<\s*int\s*>\(\s*LogClass::(\w+)\s*\)\s*;\s*i\+\+\s*\)',
                 defs, 'text2logClass loop')

    out = []
    out.append('(** GENERATED by translate/tr_c14_ops.py from the C++ source - do not edit. *)')
    out.append('From Coq Require Import List String.')
    out.append('Import ListNotations.')
    out.append('Local Open Scope string_scope.')
    out.append('')
    out.append('Inductive cmpop := OpLe | OpLt | OpGe | OpGt | OpEq | OpNe.')
    out.append('')
    out.append('(* LogFilterMaxLevel::processLevel: return l OP mMaxLevel *)')
    out.append('Definition op_max_process : cmpop := %s.' % op_max)
    out.append('(* LogFilterMinLevel::processLevel: return l OP mMinLevel *)')
    out.append('Definition op_min_process : cmpop := %s.' % op_min)
    out.append('(* LogFilterLevel::processLevel: return l OP mLevel *)')
    out.append('Definition op_level_process : cmpop := %s.' % op_lev)
    out.append('(* LogFilterLevel::pass: return msg.getLevel() OP mLevel *)')
    out.append('Definition op_level_pass : cmpop := %s.' % op_levpass)
    out.append('')
    out.append('Definition log_level_enum : list string := %s.' % _coq_list(levels))
    out.append('Definition log_class_enum : list string := %s.' % _coq_list(classes))
    out.append('Definition filter_type_enum : list string := %s.' % _coq_list(ftypes))
    out.append('Definition duplicate_policy_enum : list string := %s.' % _coq_list(pols))
    out.append('(* IFilter::isLevelFilter *)')
    out.append('Definition level_filter_types : list string := %s.' % _coq_list(lf))
    out.append('(* logClass2text, indexed by the enumerator value *)')
    out.append('Definition class_texts : list string := %s.' % _coq_list(class_texts))
    out.append('(* text2logClass: for (i = 0; i <= LogClass::%s; i++) *)' % bound)
    out.append('Definition text2class_last : nat := %d.' % classes.index(bound))
    out.append('(* std::bitset< N> LogFilterClasses::mClassSelection *)')
    out.append('Definition class_bitset_size : nat := %d.' % bits)
    return '\n'.join(out) + '\n'


def translate(repo, coq):
    text = generate(repo)
    p = Path(coq) / 'Log' / 'FilterOpsGen.v'
    p.parent.mkdir(parents=True, exist_ok=True)
    if not p.exists() or p.read_text() != text:
        p.write_text(text)
        return 'FilterOpsGen.v regenerated'
    return 'FilterOpsGen.v unchanged'


if __name__ == '__main__':
    import sys
    print(generate(sys.argv[1] if len(sys.argv) > 1 else '/repo'))
