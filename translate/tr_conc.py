"""Translator for property C20: extracts the two concurrency protocols from the C++ source
and regenerates coq/Conc/ConcGen.v (definitions only).

(a) celma/common/managed_thread.hpp, through clang's JSON AST of a translation unit that
    instantiates the constructor (clang lists the CXXCtorInitializers of an instantiated
    constructor in execution order: bases in declaration order, then members, then the body):
      * the member isActive() reads                        -> name and type of the flag
      * where the flag is initialised relative to the start
        of the thread (std::thread base constructed with a
        callable / assigned in the constructor body)       -> mt_ctor
      * std::atomic or not                                  -> mt_flag
      * the statements of the lambda that the thread runs   -> mt_body
(b) celma/common/singleton.hpp, by a brace-aware scan of Singleton<T>::instance():
      accesses to the static instance pointer and their position relative to the scope of
      the lock on the static mutex                          -> sg_first/second/store/ret
      declared type of the pointer (unique_ptr / T* = Plain, std::atomic = Atomic)

Anything that is not recognised raises TranslateError (the check then reports a broken tie)."""
import json
import re
import subprocess
from pathlib import Path

WORKDIR = Path('/verif/.work/tr_conc')


class TranslateError(Exception):
    pass


# ----------------------------------------------------------------------------
# clang JSON AST helpers

def _docs(text):
    dec = json.JSONDecoder()
    out = []
    i = 0
    n = len(text)
    while i < n:
        while i < n and text[i] in ' \r\n\t':
            i += 1
        if i >= n:
            break
        if text[i] != '{':          # "Dumping xyz:" lines
            j = text.find('\n', i)
            i = n if j < 0 else j + 1
            continue
        o, i = dec.raw_decode(text, i)
        out.append(o)
    return out


def _walk(n):
    if isinstance(n, dict):
        yield n
        for c in n.get('inner', []):
            yield from _walk(c)


def _qual(n):
    t = n.get('type') or {}
    return t.get('desugaredQualType') or t.get('qualType') or ''


def _ast(repo, tu_text, flt, tag):
    WORKDIR.mkdir(parents=True, exist_ok=True)
    tu = WORKDIR / f'{tag}.cpp'
    tu.write_text(tu_text)
    cmd = ['clang++', '-std=c++17', '-fsyntax-only', '-w', f'-I{repo}/src', '-Xclang', '-ast-dump=json',
           '-Xclang', f'-ast-dump-filter={flt}', str(tu)]
    try:
        p = subprocess.run(cmd, stdout=subprocess.PIPE, stderr=subprocess.PIPE, text=True, timeout=300)
    except (OSError, subprocess.TimeoutExpired) as ex:
        raise TranslateError(f'clang++ could not be run: {ex}')
    if p.returncode != 0:
        raise TranslateError('clang++ rejects managed_thread.hpp: ' + p.stderr[-400:])
    return _docs(p.stdout)


MT_TU = '''#include "celma/common/managed_thread.hpp"
void celma_verif_instantiate() { celma::common::ManagedThread mt( [](){} ); (void) mt.isActive(); }
'''


def _record_fields(docs, name):
    """names of the fields of the complete definition of class <name> (None: not found)"""
    short = name.split('::')[-1]
    for d in docs:
        for n in _walk(d):
            if n.get('kind') == 'CXXRecordDecl' and n.get('name') == short and n.get('completeDefinition'):
                return [c.get('name') for c in n.get('inner', []) if c.get('kind') == 'FieldDecl']
    return None


def _is_thread_type(q):
    return re.sub(r'\s', '', q) in ('std::thread', 'thread', 'classstd::thread')


def _has_callable_arg(n):
    """does the construct expression below n get arguments (a callable) ?"""
    for x in _walk(n):
        if x.get('kind') in ('CXXConstructExpr', 'CXXTemporaryObjectExpr') and _is_thread_type(_qual(x)):
            return bool(x.get('inner'))
    return False


def _lambda_body(n):
    for x in _walk(n):
        if x.get('kind') == 'LambdaExpr':
            stmts = [c for c in x.get('inner', []) if c.get('kind') == 'CompoundStmt']
            if stmts:
                return stmts[-1]
    return None


def _bool_store(stmt):
    """stmt is 'X.store(<bool literal>...)' / 'X = <bool literal>' -> True/False, else None"""
    kind = stmt.get('kind')
    inner = stmt.get('inner', [])
    if kind == 'ExprWithCleanups' and inner:
        return _bool_store(inner[0])
    if kind == 'CXXMemberCallExpr' and inner and inner[0].get('kind') == 'MemberExpr' \
            and inner[0].get('name') == 'store':
        for a in inner[1:]:
            for x in _walk(a):
                if x.get('kind') == 'CXXBoolLiteralExpr':
                    return bool(x.get('value'))
    if kind in ('BinaryOperator', 'CXXOperatorCallExpr') and (stmt.get('opcode') == '=' or kind == 'CXXOperatorCallExpr'):
        lits = [x for x in _walk(stmt) if x.get('kind') == 'CXXBoolLiteralExpr']
        is_assign = stmt.get('opcode') == '=' or any(
            x.get('kind') == 'DeclRefExpr' and (x.get('referencedDecl') or {}).get('name') == 'operator='
            for x in _walk(stmt))
        if lits and is_assign and ('bool' in _qual(stmt) or 'atomic' in json.dumps(stmt)[:4000]):
            return bool(lits[0].get('value'))
    return None


def managed_protocol(repo):
    docs = _ast(repo, MT_TU, 'ManagedThread', 'mt_inst')
    # the flag: what isActive() reads
    flag = None
    flag_type = ''
    for d in docs:
        for n in _walk(d):
            if n.get('kind') == 'CXXMethodDecl' and n.get('name') == 'isActive' and \
                    any(c.get('kind') == 'CompoundStmt' for c in n.get('inner', [])):
                for x in _walk(n):
                    if x.get('kind') == 'MemberExpr' and x.get('name') not in (None, 'load') and \
                            'bound member' not in _qual(x):
                        flag, flag_type = x.get('name'), _qual(x)
                        break
    if not flag:
        raise TranslateError('ManagedThread::isActive(): no member read found')
    # isActive() must be nothing but a read of that flag: any other member, a store or a branch makes the answer
    # depend on more than the protocol models
    for d in docs:
        for n in _walk(d):
            if n.get('kind') == 'CXXMethodDecl' and n.get('name') == 'isActive' and \
                    any(c.get('kind') == 'CompoundStmt' for c in n.get('inner', [])):
                members = {x.get('name') for x in _walk(n) if x.get('kind') == 'MemberExpr'
                           and x.get('name') not in (None, 'load') and 'bound member' not in _qual(x)}
                kinds = {x.get('kind') for x in _walk(n)}
                stores = {x.get('name') for x in _walk(n) if x.get('kind') == 'MemberExpr'
                          and x.get('name') in ('store', 'exchange', 'compare_exchange_strong', 'compare_exchange_weak',
                                                'fetch_or', 'fetch_and', 'fetch_add')}
                # member functions called besides the load of the flag (joinable(), get_id(), ...): the answer would
                # depend on the state of the std::thread handle, which the owner changes in join / detach / move
                calls = {x.get('name') for x in _walk(n) if x.get('kind') == 'MemberExpr'
                         and 'bound member' in _qual(x) and x.get('name') not in (None, 'load')}
                logic = any(x.get('kind') == 'BinaryOperator' and x.get('opcode') in ('&&', '||', '&', '|')
                            for x in _walk(n)) or \
                    any(x.get('kind') == 'UnaryOperator' and x.get('opcode') == '!' for x in _walk(n))
                if len(members) != 1 or stores or calls - stores or logic or \
                        kinds & {'IfStmt', 'WhileStmt', 'ForStmt', 'ConditionalOperator',
                                 'CompoundAssignOperator', 'SwitchStmt'} or \
                        any(x.get('kind') == 'BinaryOperator' and x.get('opcode') == '=' for x in _walk(n)):
                    raise TranslateError('ManagedThread::isActive() is more than a read of the activity flag '
                                         '(members %s, calls %s)' % (sorted(members), sorted(c for c in calls if c)))
    mode = 'Atomic' if 'atomic' in flag_type else 'Plain'
    # the destructor is the join of the protocol: it may test joinable(), it must call join(), it must not depend
    # on the activity flag and must never detach the thread
    dtor_seen = False
    for d in docs:
        for n in _walk(d):
            if n.get('kind') == 'CXXDestructorDecl' and any(c.get('kind') == 'CompoundStmt' for c in n.get('inner', [])):
                dtor_seen = True
                names = [x.get('name') for x in _walk(n) if x.get('kind') == 'MemberExpr']
                if 'join' not in names:
                    raise TranslateError('ManagedThread::~ManagedThread() does not join the thread')
                if 'detach' in names or 'isActive' in names or flag in names:
                    raise TranslateError('ManagedThread::~ManagedThread() detaches the thread or makes the join '
                                         'depend on the activity flag (members %s)' % sorted(set(x for x in names if x)))
    if not dtor_seen:
        raise TranslateError('ManagedThread::~ManagedThread(): definition not found in the AST')
    # the instantiated constructor
    ctor = None
    for d in docs:
        for n in _walk(d):
            if n.get('kind') == 'CXXConstructorDecl' and n.get('name') == 'ManagedThread' and \
                    any(c.get('kind') == 'CXXCtorInitializer' for c in n.get('inner', [])) and \
                    any(c.get('kind') == 'TemplateArgument' for c in n.get('inner', [])):
                ctor = n
    if ctor is None:
        raise TranslateError('no instantiated ManagedThread constructor in the AST')
    steps = []
    body = None
    start_node = None
    for c in ctor.get('inner', []):
        k = c.get('kind')
        if k == 'CXXCtorInitializer':
            if 'baseInit' in c:
                q = c['baseInit'].get('desugaredQualType') or c['baseInit'].get('qualType') or ''
                if _is_thread_type(q):
                    if _has_callable_arg(c):
                        steps.append('CStartThread')
                        start_node = c
                else:
                    fields = _record_fields(docs, q)
                    if fields is None:
                        more = _ast(repo, MT_TU, q.split('::')[-1], 'mt_base')
                        fields = _record_fields(more, q)
                    if fields is None:
                        raise TranslateError(f'base class {q} of ManagedThread not found in the AST')
                    if flag in fields:
                        steps.append('CInitFlag')
            elif (c.get('anyInit') or {}).get('name') == flag:
                steps.append('CInitFlag')
        elif k == 'CompoundStmt':
            for st in c.get('inner', []):
                txt_nodes = list(_walk(st))
                starts = any(x.get('kind') in ('CXXConstructExpr', 'CXXTemporaryObjectExpr') and
                             _is_thread_type(_qual(x)) and x.get('inner') for x in txt_nodes)
                if starts:
                    steps.append('CStartThread')
                    start_node = st
                elif any(x.get('kind') == 'MemberExpr' and x.get('name') == flag for x in txt_nodes):
                    steps.append('CInitFlag')
    if steps.count('CStartThread') != 1 or steps.count('CInitFlag') != 1:
        raise TranslateError(f'ManagedThread constructor: cannot order flag initialisation and thread start: {steps}')
    body = _lambda_body(start_node)
    if body is None:
        raise TranslateError('ManagedThread constructor: the thread is not started with a lambda')
    bsteps = []
    for st in body.get('inner', []):
        v = _bool_store(st)
        if v is not None:
            bsteps.append('BStore true' if v else 'BStore false')
        elif st.get('kind') in ('CallExpr', 'CXXOperatorCallExpr', 'CXXMemberCallExpr', 'ExprWithCleanups'):
            bsteps.append('BRun')
        elif st.get('kind') in ('DeclStmt', 'NullStmt'):
            continue
        else:
            raise TranslateError(f'thread lambda: statement kind {st.get("kind")} not understood')
    return {'flag': flag, 'flag_type': flag_type, 'ctor': steps, 'mode': mode, 'body': bsteps}


# ----------------------------------------------------------------------------
# Singleton<T>::instance(): text scan

def strip_comments(text):
    out = []
    i = 0
    n = len(text)
    while i < n:
        if text.startswith('//', i):
            j = text.find('\n', i)
            i = n if j < 0 else j
        elif text.startswith('/*', i):
            j = text.find('*/', i + 2)
            if j < 0:
                raise TranslateError('unterminated comment')
            i = j + 2
            out.append(' ')
        elif text[i] == '"':
            j = i + 1
            while j < n and text[j] != '"':
                j += 2 if text[j] == '\\' else 1
            out.append('""')
            i = j + 1
        else:
            out.append(text[i])
            i += 1
    return ''.join(out)


def singleton_protocol(repo):
    path = Path(repo) / 'src/celma/common/singleton.hpp'
    try:
        t = strip_comments(path.read_text())
    except OSError as ex:
        raise TranslateError(str(ex))
    cands = [(re.sub(r'\s', '', m.group(1)), m.group(2)) for m in re.finditer(
        r'static\s+((?:std::unique_ptr|std::shared_ptr|std::atomic)\s*<[^;>]*>|T\s*\*)\s*(\w+)\s*;', t)]
    if not cands:
        raise TranslateError('singleton.hpp: static instance pointer not found')
    m = re.search(r'static\s+std::(?:recursive_)?mutex\s+(\w+)\s*;', t)
    if not m:
        raise TranslateError('singleton.hpp: static mutex not found')
    mtx = m.group(1)
    m = re.search(r'Singleton\s*<\s*T\s*>\s*::\s*instance\s*\(', t)
    if not m:
        raise TranslateError('singleton.hpp: definition of Singleton<T>::instance() not found')
    i = t.find('{', m.end())
    depth = 0
    j = i
    while j < len(t):
        if t[j] == '{':
            depth += 1
        elif t[j] == '}':
            depth -= 1
            if depth == 0:
                break
        j += 1
    if depth != 0:
        raise TranslateError('singleton.hpp: unbalanced braces in instance()')
    body = t[i:j + 1]
    # the instance pointer is the static pointer that instance() touches first
    used = sorted((mm.start(), c) for c in cands for mm in [re.search(r'\b' + re.escape(c[1]) + r'\b', body)] if mm)
    if not used:
        raise TranslateError('instance() does not use any static pointer member')
    ptype, ptr = used[0][1]
    mode = 'Atomic' if ptype.startswith('std::atomic') else 'Plain'
    P, M = re.escape(ptr), re.escape(mtx)
    tok = re.compile(
        r'(?P<open>\{)|(?P<close>\})'
        r'|(?P<guard>(?:std::)?(?:lock_guard|unique_lock|scoped_lock)\s*(?:<[^;{}()]*>)?\s*\w+\s*[({]\s*' + M + r'\b)'
        r'|(?P<lock>\b' + M + r'\s*\.\s*lock\s*\()'
        r'|(?P<unlock>\b' + M + r'\s*\.\s*unlock\s*\()'
        r'|(?P<create>\b' + P + r'\s*\.\s*(?:reset|store)\s*\(\s*[\w:]|\b' + P + r'\s*=[^=])'
        r'|(?P<retptr>\breturn\s*\*\s*' + P + r'\b)'
        r'|(?P<retloc>\breturn\s*\*\s*\w+)'
        r'|(?P<read>\b' + P + r'\b)')
    events = []          # (kind, locked)
    depth = 0
    lock_depth = None
    for mm in tok.finditer(body):
        k = mm.lastgroup
        if k == 'open':
            depth += 1
        elif k == 'close':
            if lock_depth is not None and lock_depth != 'explicit' and depth == lock_depth:
                events.append(('unlock', False))
                lock_depth = None
            depth -= 1
        elif k in ('guard', 'lock'):
            if lock_depth is not None:
                raise TranslateError('instance(): mutex locked twice')
            events.append(('lock', False))
            lock_depth = depth if k == 'guard' else 'explicit'
        elif k == 'unlock':
            events.append(('unlock', False))
            lock_depth = None
        else:
            events.append((k, lock_depth is not None))
    kinds = [e[0] for e in events]
    if 'lock' not in kinds:
        raise TranslateError('instance(): no acquisition of the mutex found')
    if kinds.count('create') != 1:
        raise TranslateError(f'instance(): expected exactly one construction/store of the pointer, found {kinds.count("create")}')
    ic = kinds.index('create')
    il = kinds.index('lock')
    if not events[ic][1]:
        raise TranslateError('instance(): the object is constructed without the mutex held')
    first = 'Some ' + mode if any(k == 'read' and not lk for (k, lk) in events[:il]) else 'None'
    second = 'Some ' + mode if any(k == 'read' and lk for (k, lk) in events[il:ic]) else 'None'
    rets = [(k, lk) for (k, lk) in events if k in ('retptr', 'retloc')]
    if not rets:
        raise TranslateError('instance(): no return statement found')
    if len(set(rets)) != 1:
        # several exits (e.g. an early return when the object exists) are one protocol step as long as they
        # access the pointer in the same way under the same lock state
        raise TranslateError('instance(): return statements that access the pointer in different ways')
    late_unlocked_read = any(k == 'read' and not lk for (k, lk) in events[ic:])
    if rets[0][0] == 'retptr':
        ret = f'RetRead {mode} {"true" if rets[0][1] else "false"}'
    elif late_unlocked_read:
        ret = f'RetRead {mode} false'
    else:
        ret = 'RetLocal'
    return {'pointer': ptr, 'pointer_type': ptype, 'mutex': mtx, 'events': events,
            'first': first, 'second': second, 'store': mode, 'ret': ret}


# ----------------------------------------------------------------------------

def generate(repo):
    mt = managed_protocol(repo)
    sg = singleton_protocol(repo)
    ev = ' '.join(('%s%s' % (k, '@locked' if lk else '')) for k, lk in sg['events'])
    text = f'''(** GENERATED by translate/tr_conc.py from src/celma/common/singleton.hpp and
    src/celma/common/managed_thread.hpp (clang JSON AST) - do not edit.
    singleton: pointer {sg['pointer']} : {sg['pointer_type']}, mutex {sg['mutex']};
               access sequence of instance(): {ev}
    managed thread: flag {mt['flag']} : {mt['flag_type']};
               constructor order: {' ; '.join(mt['ctor'])};  thread: {' ; '.join(mt['body'])} *)
From Coq Require Import List.
Import ListNotations.
Require Import Celma.Conc.Interleave Celma.Conc.Singleton Celma.Conc.ManagedThread.

Definition singleton_proto : sg_proto :=
  mkSg ({sg['first']}) ({sg['second']}) {sg['store']} ({sg['ret']}).

Definition managed_proto : mt_proto :=
  mkMt [{'; '.join(mt['ctor'])}] {mt['mode']} [{'; '.join(mt['body'])}].
'''
    return text, {'singleton': f"first={sg['first']} second={sg['second']} store={sg['store']} ret={sg['ret']}",
                  'managed': f"ctor={mt['ctor']} flag={mt['mode']} body={mt['body']}"}


def translate(repo, coq):
    text, info = generate(str(repo))
    out = Path(coq) / 'Conc' / 'ConcGen.v'
    if not out.exists() or out.read_text() != text:
        out.parent.mkdir(parents=True, exist_ok=True)
        out.write_text(text)
    return info


if __name__ == '__main__':
    import sys
    print(generate(sys.argv[1] if len(sys.argv) > 1 else '/repo')[0])
