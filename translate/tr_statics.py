"""Translator for property C09: inventory of the objects with static storage duration that
exist in a program which sets up and evaluates argument handlers, classified for the
non-interference theorem; regenerates coq/Conc/SharedGen.v (definitions only).

Hybrid of the compiler's symbol table and the source text:
  * the translation units of the argument handler (props/args_common.repo_sources(): library/prog_args/**,
    plus the sources it needs) and the C09 harness (which instantiates the templates of
    celma/prog_args/**, celma/common/tokenizer*.hpp, celma/common/singleton.hpp, celma/format/** that a handler
    with container destinations, checks, constraints and formats uses) are compiled exactly as the check's
    ThreadSanitizer harness compiles them (shared object cache);
  * `nm -C -l --defined-only` lists every object the compiler placed in a data section, with the
    source position of its definition: function-local statics, namespace-scope variables and static data
    members alike, including those of instantiated templates.  Kept: objects defined in <repo>/src.
      - read-only sections (r/R)                                   -> ConstInit
      - writable sections (b/B/d/D/u/V/...): the declaration at the reported source line decides:
          const / constexpr object (dynamic initialisation of a const object: function-local =
          thread-safe in C++11, namespace scope / static member = before main)   -> ConstInit
          std::mutex / std::atomic / std::once_flag                               -> Guarded
          anything else                                                           -> Mutable
  * translate/c09_allowlist.json (committed; one-line justification per entry) may override kind and
    "touched" (lies on the set-up/evaluation path of an independent handler; default: true).  An entry
    with "condition": "singleton_locked" applies only if translate/tr_conc.py finds that
    Singleton<T>::instance() makes no unlocked plain access to the pointer.

Anything unexpected (compile error, unreadable source line) raises TranslateError."""
import json
import os
import re
import subprocess
import sys
from concurrent.futures import ThreadPoolExecutor
from pathlib import Path

sys.path.insert(0, '/verif/lib')
sys.path.insert(0, '/verif/props')
sys.path.insert(0, '/verif/translate')
import vf  # noqa

ALLOWLIST = Path('/verif/translate/c09_allowlist.json')
HARNESS_SRC = 'harness/c09_harness.cpp'
TSAN_FLAGS = ['-fsanitize=thread']


class TranslateError(Exception):
    pass


def units(repo):
    import importlib
    import args_common
    importlib.reload(args_common)
    srcs = [str(vf.VERIF / HARNESS_SRC)] + [str(Path(repo) / 'src' / s) for s in args_common.repo_sources()]
    return srcs


def compile_units(repo):
    """same flags / include path as vf.build_harness(..., sanitize=False, extra_flags=TSAN_FLAGS)"""
    flags = list(vf.BASE_FLAGS) + TSAN_FLAGS
    inc = [str(vf.VERIF / 'harness' / 'common'), str(Path(repo) / 'src')]
    vf._hash_cache.clear()
    with ThreadPoolExecutor(max_workers=vf.NPROC) as ex:
        res = list(ex.map(lambda s: vf.compile_object(s, flags, inc, 'g++'), units(repo)))
    errs = [e for (_, e) in res if e]
    if errs:
        raise TranslateError('cannot compile the argument handler sources: ' + errs[0][-600:])
    return [str(o) for (o, _) in res]


SKIP_PREFIX = ('guard variable for ', 'typeinfo ', 'vtable for ', 'VTT for ', 'construction vtable', '__odr_asan',
               '__tsan', '__asan', 'DW.ref', '.L', '__gnu', '__dso_handle')
WRITABLE = set('bBdDuVvgGsSC')
READONLY = set('rR')


def symbols(objs, repo):
    src_root = str(Path(repo).resolve() / 'src') + '/'
    out = {}
    guards = set()
    for o in objs:
        p = subprocess.run(['nm', '-C', '-l', '--defined-only', o], stdout=subprocess.PIPE, stderr=subprocess.PIPE,
                           text=True, timeout=300)
        if p.returncode != 0:
            raise TranslateError('nm failed on ' + o + ': ' + p.stderr[-200:])
        for line in p.stdout.splitlines():
            m = re.match(r'^[0-9a-fA-F]+\s+(\S)\s+(.*)$', line)
            if not m:
                continue
            typ, rest = m.group(1), m.group(2)
            name, _, pos = rest.partition('\t')
            name = name.strip()
            if name.startswith('guard variable for '):
                guards.add(name[len('guard variable for '):])
                continue
            if typ not in WRITABLE and typ not in READONLY:
                continue
            if name.startswith(SKIP_PREFIX) or not pos:
                continue
            f, _, ln = pos.rpartition(':')
            try:
                f = str(Path(f).resolve())
            except OSError:
                continue
            if not f.startswith(src_root) or not ln.isdigit():
                continue
            rel = f[len(src_root):]
            key = name
            cur = out.get(key)
            if cur is None or (typ in WRITABLE and cur['section'] == 'ro'):
                out[key] = {'name': name, 'file': rel, 'line': int(ln),
                            'section': 'rw' if typ in WRITABLE else 'ro'}
    for k in out:
        out[k]['dynamic_init'] = k in guards
    return out


# functions of the C library that keep hidden static state (POSIX: "need not be thread-safe"): a call from the
# argument-handler sources is shared mutable state although no object of the library shows it
LIBC_HIDDEN_STATE = set('''strtok rand srand random srandom localtime gmtime ctime asctime strerror setenv putenv
unsetenv tmpnam tempnam readdir getpwnam getpwuid getgrnam getgrgid gethostbyname gethostbyaddr inet_ntoa ttyname
basename dirname setlocale getlogin ecvt fcvt gcvt lgamma lgammaf lgammal drand48 erand48 lrand48 nrand48 mrand48
jrand48 srand48 seed48 lcong48 strsignal l64a a64l crypt getopt getopt_long getdate getservbyname getservbyport
getprotobyname getnetbyname ptsname mblen mbtowc wctomb nl_langinfo localeconv hsearch hcreate hdestroy setkey
encrypt getutxent getutxid getutxline pututxline'''.split())


def libc_calls(objs, repo):
    """undefined symbols of the compiled library sources (not of the harness) that name such a function"""
    out = {}
    for o, src in zip(objs, units(repo)):
        if not str(src).startswith(str(Path(repo).resolve())) and not str(src).startswith(str(repo)):
            continue
        p = subprocess.run(['nm', '-u', o], stdout=subprocess.PIPE, stderr=subprocess.PIPE, text=True, timeout=300)
        if p.returncode != 0:
            raise TranslateError('nm -u failed on ' + o + ': ' + p.stderr[-200:])
        for line in p.stdout.splitlines():
            m = re.match(r'^\s*U\s+(\w+)', line)
            if m and m.group(1).split('@')[0] in LIBC_HIDDEN_STATE:
                out.setdefault(m.group(1).split('@')[0], set()).add(os.path.relpath(str(src), str(Path(repo) / 'src')))
    return out


def strip_comments(text):
    text = re.sub(r'/\*[\s\S]*?\*/', ' ', text)
    return re.sub(r'//[^\n]*', '', text)


def declaration(repo, rel, line, name):
    """the declaration text that starts at <file>:<line> (up to the ';')"""
    try:
        lines = (Path(repo) / 'src' / rel).read_text(errors='replace').splitlines()
    except OSError as ex:
        raise TranslateError(f'cannot read {rel}: {ex}')
    if line < 1 or line > len(lines):
        raise TranslateError(f'{rel}:{line}: no such line (object {name})')
    txt = strip_comments('\n'.join(lines[line - 1:line + 6]))
    return ' '.join(txt.split(';')[0].split())


def scope_names(repo, rel, line):
    """the identifiers that occur in the enclosing function before <line> - its parameters and earlier locals among
    them: the text between the end of the previous function and the declaration"""
    try:
        lines = (Path(repo) / 'src' / rel).read_text(errors='replace').splitlines()
    except OSError:
        return set()
    # back to the end of the previous function ("}" within the first columns), at most 120 lines
    start = max(0, line - 121)
    for j in range(min(line - 2, len(lines) - 1), start, -1):
        if re.match(r'^\s{0,3}\}', lines[j]):
            start = j + 1
            break
    txt = strip_comments('\n'.join(lines[start:line - 1]))
    txt = re.sub(r'"(\\.|[^"\\])*"', ' ', txt)
    return set(re.findall(r'[A-Za-z_]\w*', txt))


def short_name(name):
    n = re.sub(r'\[abi:[^\]]*\]', '', name)
    return re.split(r'::', n)[-1].strip()


# words that may occur in an initialiser made of literals only
INIT_LITERAL_WORDS = {'std', 'string', 'string_view', 'nullptr', 'true', 'false', 'sizeof', 'char', 'int', 'unsigned',
                      'long', 'short', 'size_t', 'const', 'static', 'u8', 'L', 'u', 'U', 'R', 'ul', 'UL', 'f', 's', 'sv'}


def classify(sym, decl):
    if sym['section'] == 'ro':
        return 'ConstInit', 'placed in a read-only section'
    short = re.escape(short_name(sym['name']))
    head = re.split(r'\b' + short + r'\b', decl)[0] if re.search(r'\b' + short + r'\b', decl) else decl
    if re.search(r'\bconst(expr)?\b', head) and not re.search(r'\bconst\s*\*\s*$', head.strip()):
        if sym['dynamic_init']:
            # a const object that is initialised on first use (guard variable): constant for everybody only if the
            # initialiser is made of literals. An initialiser that reads parameters, locals or other run-time data is
            # decided by the first caller and observed by every later one - shared state between independent threads
            parts = re.split(r'\b' + short + r'\b', decl, maxsplit=1)
            init = parts[1] if len(parts) > 1 else ''
            init = re.sub(r'"(\\.|[^"\\])*"', ' ', init)
            init = re.sub(r"'(\\.|[^'\\])*'", ' ', init)
            idents = [i for i in re.findall(r'[A-Za-z_]\w*', init) if i not in INIT_LITERAL_WORDS]
            # ... run-time data = a name that the enclosing function introduces before the declaration (a parameter
            # or an earlier local); a named constant of namespace scope is as good as a literal
            idents = [i for i in idents if i in sym.get('scope_names', set())]
            if idents:
                return 'Mutable', ('const object initialised on first use from run-time data (%s): the first caller '
                                   'decides what every later caller sees' % ', '.join(sorted(set(idents))[:4]))
        return 'ConstInit', 'const object' + (' (guarded dynamic initialisation)' if sym['dynamic_init'] else '')
    if re.search(r'\bstd\s*::\s*(recursive_|timed_|shared_)?mutex\b|\bstd\s*::\s*atomic\b|\bstd\s*::\s*once_flag\b', head):
        return 'Guarded', 'synchronisation object / atomic'
    return 'Mutable', 'writable, not const: ' + decl[:80]


def load_allowlist():
    if not ALLOWLIST.exists():
        return []
    try:
        al = json.loads(ALLOWLIST.read_text())
    except ValueError as ex:
        raise TranslateError(f'{ALLOWLIST}: {ex}')
    for e in al:
        if not e.get('match') or not e.get('why'):
            raise TranslateError(f'{ALLOWLIST}: every entry needs "match" and "why"')
    return al


def inventory(repo):
    objs = compile_units(repo)
    syms = symbols(objs, repo)
    al = load_allowlist()
    singleton_locked = None
    inv = []
    for name in sorted(syms):
        s = syms[name]
        decl = declaration(repo, s['file'], s['line'], name)
        s['scope_names'] = scope_names(repo, s['file'], s['line']) if s.get('dynamic_init') else set()
        kind, why = classify(s, decl)
        touched = True
        for e in al:
            if not re.search(e['match'], name):
                continue
            if e.get('condition') == 'singleton_locked':
                if singleton_locked is None:
                    import importlib
                    import tr_conc
                    importlib.reload(tr_conc)
                    sg = tr_conc.singleton_protocol(repo)
                    singleton_locked = sg['first'] in ('None', 'Some Atomic')
                if not singleton_locked:
                    continue
            if 'kind' in e:
                kind = e['kind']
            if 'touched' in e:
                touched = bool(e['touched'])
            why = 'allow-list: ' + e['why']
        if kind == 'Guarded' and touched and re.search(r'mutex', decl):
            # a lock shared by independent handlers must be taken through a scoped guard only: locked by hand, a
            # path that leaves by an exception keeps it locked and every other handler waits for ever
            try:
                text = strip_comments((Path(repo) / 'src' / s['file']).read_text(errors='replace'))
            except OSError:
                text = ''
            sn = re.escape(short_name(name))
            if re.search(r'\b' + sn + r'\s*\.\s*(lock|unlock|try_lock)\s*\(', text):
                kind, why = 'Mutable', 'mutex locked / unlocked by hand (no scoped guard): ' + decl[:60]
        inv.append({'name': name, 'kind': kind, 'touched': touched, 'where': f"{s['file']}:{s['line']}", 'why': why})
    if not inv:
        raise TranslateError('no object with static storage duration found at all - scan broken')
    for fn, where in sorted(libc_calls(objs, repo).items()):
        inv.append({'name': 'libc:' + fn, 'kind': 'Mutable', 'touched': True, 'where': ','.join(sorted(where))[:80],
                    'why': 'C library function with hidden static state, called from the argument-handler sources'})
    return inv


def generate(repo):
    inv = inventory(repo)
    lines = []
    for o in inv:
        nm = o['name'].replace('"', "'")
        lines.append(f'  (* {o["where"]}: {o["why"][:110].replace("*)", "* )")} *)\n'
                     f'  mkSobj "{nm}" {o["kind"]} {"true" if o["touched"] else "false"}')
    text = ('(** GENERATED by translate/tr_statics.py (symbol tables of the compiled argument-handler sources +\n'
            '    declarations in the source + translate/c09_allowlist.json) - do not edit. *)\n'
            'From Coq Require Import List String.\nImport ListNotations.\nOpen Scope string_scope.\n'
            'Require Import Celma.Conc.Shared.\n\n'
            'Definition shared_inventory : list sobj := [\n' + ';\n'.join(lines) + '\n].\n')
    bad = [o['name'] for o in inv if o['touched'] and o['kind'] == 'Mutable']
    info = {'objects': len(inv), 'ConstInit': sum(o['kind'] == 'ConstInit' for o in inv),
            'Guarded': sum(o['kind'] == 'Guarded' for o in inv), 'Mutable': sum(o['kind'] == 'Mutable' for o in inv),
            'touched_mutable': bad}
    return text, info, inv


def translate(repo, coq):
    text, info, _ = generate(str(repo))
    out = Path(coq) / 'Conc' / 'SharedGen.v'
    if not out.exists() or out.read_text() != text:
        out.parent.mkdir(parents=True, exist_ok=True)
        out.write_text(text)
    return info


if __name__ == '__main__':
    t, i, inv = generate(sys.argv[1] if len(sys.argv) > 1 else '/repo')
    print(t)
    print(i)
