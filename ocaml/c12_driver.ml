(* Driver for the extracted C12 model: reads the case file, prints one result
   line per case in the format of harness/c12_harness.cpp.  I/O only - every
   decision is taken by the extracted Coq functions.
   Environment C12_PINNED=1 selects the model of the pinned (unfixed) members
   (used by hand to validate the *_pinned definitions, never by ./check). *)
open C12_model

let rec nat_of_int i = if i <= 0 then O else S (nat_of_int (i - 1))
let int_of_nat n = let rec go acc = function O -> acc | S n -> go (acc + 1) n in go 0 n

let rec int_of_pos = function
  | XH -> 1 | XO p -> 2 * int_of_pos p | XI p -> 2 * int_of_pos p + 1
let int_of_z = function Z0 -> 0 | Zpos p -> int_of_pos p | Zneg p -> - (int_of_pos p)

(* N (< 2^64) to unsigned decimal *)
let rec i64_of_pos = function
  | XH -> 1L
  | XO p -> Int64.mul 2L (i64_of_pos p)
  | XI p -> Int64.add (Int64.mul 2L (i64_of_pos p)) 1L
let string_of_n = function N0 -> "0" | Npos p -> Printf.sprintf "%Lu" (i64_of_pos p)

let err_name = function
  | EInvalidArgument -> "invalid_argument" | ERuntime -> "runtime_error"
  | EOutOfRange -> "out_of_range" | ERange -> "range_error"
  | EOverflow -> "overflow_error" | EUnderflow -> "underflow_error"
  | ELogic -> "logic_error" | EBadCast -> "bad_cast" | EArgument -> "argument_error"
  | EOther -> "other"
let fault_name = function
  | OOBRead -> "oob_read" | OOBWrite -> "oob_write" | Starved -> "starved"
  | BadFree -> "bad_free" | NullDeref -> "null" | Fuel -> "fuel" | Wrap -> "wrap"

let bits_of_string s =
  if s = "-" then [] else List.init (String.length s) (fun i -> s.[i] = '1')
let string_of_bits l =
  if l = [] then "-" else String.concat "" (List.map (fun b -> if b then "1" else "0") l)

let pinned = (try Sys.getenv "C12_PINNED" = "1" with Not_found -> false)

let seq_str = function
  | Ok l -> if l = [] then "-" else String.concat "." (List.map (fun z -> string_of_int (int_of_z z)) l)
  | Err e -> "E:" ^ err_name e
  | Fault f -> "F:" ^ fault_name f

let observers d =
  let b x = if x then "1" else "0" in
  Printf.sprintf "%d;%s;%d;%s%s%s;%s;%s;%s;%s"
    (int_of_nat (m_size d)) (string_of_bits (m_to_string d)) (int_of_nat (m_count d))
    (b (m_any d)) (b (m_none d)) (b (m_all d))
    (match m_to_ulong d with Ok n -> string_of_n n | Err e -> "E:" ^ err_name e | Fault f -> "F:" ^ fault_name f)
    (seq_str ((if pinned then iter_fwd_pinned else iter_fwd) d))
    (seq_str ((if pinned then iter_rev_pinned else iter_rev) d))
    (seq_str (iter_back d))

let parse_op b tok =
  let n s = nat_of_int (int_of_string s) in
  let v s = s = "1" in
  match String.split_on_char ':' tok with
  | ["test"; p] -> OTest (n p)
  | ["idx"; p] -> OIdx (n p)
  | ["ref"; p] -> ORef (n p)
  | ["put"; p; x] -> OPut (n p, v x)
  | ["set"; p; x] -> OSet (n p, v x)
  | ["setall"] -> OSetAll
  | ["reset"; p] -> OReset (n p)
  | ["resetall"] -> OResetAll
  | ["flip"; p] -> OFlip (n p)
  | ["flipall"] -> OFlipAll
  | ["resize"; c; x] -> OResize (n c, v x)
  | ["assign"] | ["assignmv"] | ["assigndb"] | ["ctormv"] -> OAssign b
  | ["assignbs"] -> OAssignBs b
  | ["ctorbs"] -> OCtorBs b
  | ["eq"] -> OEq b
  | ["anda"] -> OAndA b | ["ora"] -> OOrA b | ["xora"] -> OXorA b
  | ["and"] -> OAnd b | ["or"] -> OOr b | ["xor"] -> OXor b
  | ["not"] -> ONot
  | ["shla"; k] -> OShlA (n k) | ["shl"; k] -> OShl (n k)
  | ["shra"; k] -> OShrA (n k) | ["shr"; k] -> OShr (n k)
  | _ -> failwith ("bad op " ^ tok)

let () =
  let ic = if Array.length Sys.argv > 1 then open_in Sys.argv.(1) else stdin in
  try
    while true do
      let line = input_line ic in
      match String.split_on_char ' ' (String.trim line) with
      | [id; a; b; ops] ->
          let b = bits_of_string b in
          let ops = if ops = "-" then [] else List.map (parse_op b) (String.split_on_char ',' ops) in
          let rec go d ops acc =
            match ops with
            | [] -> List.rev acc
            | o :: rest ->
                (match (if pinned then step_pinned else step) d o with
                 | Ok (d', v) ->
                     let r = (match v with VNone -> "-" | VBool x -> if x then "1" else "0") in
                     go d' rest ((r ^ ";" ^ observers d') :: acc)
                 | Err e -> go d rest (("E:" ^ err_name e ^ ";" ^ observers d) :: acc)
                 | Fault f -> List.rev (("F:" ^ fault_name f) :: acc)) in
          let d0 = bits_of_string a in
          let outs = ("-;" ^ observers d0) :: go d0 ops [] in
          Printf.printf "%s %s ##\n" id (String.concat " " outs)
      | _ -> ()
    done
  with End_of_file -> ()
