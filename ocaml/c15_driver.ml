(* Driver for the extracted C15 model: reads the case file, one case per line, and
   prints one result line per case in the format of harness/c15_harness.cpp.
   I/O only - every decision is taken by the extracted Coq functions. *)
open C15_model

let rec nat_of_int i = if i <= 0 then O else S (nat_of_int (i - 1))
let rec int_of_nat = function O -> 0 | S n -> 1 + int_of_nat n

let err_name = function
  | EInvalidArgument -> "invalid_argument" | ERuntime -> "runtime_error"
  | EOutOfRange -> "out_of_range" | ERange -> "range_error"
  | EOverflow -> "overflow_error" | EUnderflow -> "underflow_error"
  | ELogic -> "logic_error" | EBadCast -> "bad_cast" | EArgument -> "argument_error"
  | EOther -> "other"

let bytes_of_text s = List.init (Stdlib.String.length s) (fun i -> nat_of_int (Char.code s.[i]))

let dump gens st =
  let b = Buffer.create 64 in
  for g = 0 to gens do
    if g > 0 then Buffer.add_char b ';';
    Buffer.add_string b (string_of_int g);
    (match st.sfs (nat_of_int g) with
     | None -> Buffer.add_char b '!'
     | Some c ->
         Buffer.add_char b '=';
         List.iter (fun x -> let x = int_of_nat x in
                     Buffer.add_char b (if x = 10 then ',' else Char.chr x)) c)
  done;
  Buffer.contents b

let () =
  let ic = if Array.length Sys.argv > 1 then open_in Sys.argv.(1) else stdin in
  let start = if Array.length Sys.argv > 2 then Some Sys.argv.(2) else None in
  let started = ref (start = None) in
  try
    while true do
      let line = input_line ic in
      match Stdlib.String.split_on_char ' ' (Stdlib.String.trim line) with
      | [id; k; limit; gens; evs] ->
          if not !started && Some id = start then started := true;
          if !started then begin
            let gens_i = int_of_string gens in
            let c = { ckind = (if k = "C" then KCounted else KMaxSize);
                      climit = nat_of_int (int_of_string limit); cgens = nat_of_int gens_i } in
            let events = List.filter_map (fun e ->
                if e = "" || e = "-" then None
                else if e.[0] = 'r' then Some Restart
                else Some (Write (bytes_of_text (Stdlib.String.sub e 1 (Stdlib.String.length e - 1)))))
                (Stdlib.String.split_on_char ',' evs) in
            let (states, err) = run c init_state events in
            let prop = List.map (fun (st, _) -> dump gens_i st) states
                       @ (match err with None -> [] | Some e -> ["E:" ^ err_name e]) in
            let intl = List.map (fun (st, _) ->
                match st.sobj with Some n -> string_of_int (int_of_nat n) | None -> "-") states in
            Printf.printf "%s %s ## %s\n" id (Stdlib.String.concat " " prop) (Stdlib.String.concat " " intl)
          end
      | _ -> ()
    done
  with End_of_file -> ()
