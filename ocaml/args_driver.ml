(* Driver for the extracted argument-handler model (shared by C01-C04, C06-C08).
   Reads the case format of harness/args_harness.cpp and prints results in the
   same format.  I/O and the translation of the configuration language into the
   model's [cfg] only; every decision is taken by extracted Coq code. *)
open Args_model

let rec nat_of_int i = if i <= 0 then O else S (nat_of_int (i - 1))
let rec pos_of_int i =
  if i = 1 then XH else if i land 1 = 0 then XO (pos_of_int (i lsr 1)) else XI (pos_of_int (i lsr 1))
let n_of_int i = if i = 0 then N0 else Npos (pos_of_int i)
let z_of_int i = if i = 0 then Z0 else if i > 0 then Zpos (pos_of_int i) else Zneg (pos_of_int (-i))
let rec int_of_pos = function XH -> 1 | XO p -> 2 * int_of_pos p | XI p -> 2 * int_of_pos p + 1
let int_of_n = function N0 -> 0 | Npos p -> int_of_pos p
let int_of_z = function Z0 -> 0 | Zpos p -> int_of_pos p | Zneg p -> - (int_of_pos p)

let str_of_string s = List.init (String.length s) (fun i -> n_of_int (Char.code s.[i]))
let string_of_str l = String.concat "" (List.map (fun c -> String.make 1 (Char.chr (int_of_n c))) l)
let unhex s =
  if s = "-" then "" else String.init (String.length s / 2) (fun i -> Char.chr (int_of_string ("0x" ^ String.sub s (2 * i) 2)))
let hex s = if s = "" then "-" else String.concat "" (List.init (String.length s) (fun i -> Printf.sprintf "%02x" (Char.code s.[i])))

let starts p s = String.length s >= String.length p && String.sub s 0 (String.length p) = p
let after p s = String.sub s (String.length p) (String.length s - String.length p)
let split_on c s = if s = "" || s = "-" then [] else String.split_on_char c s

exception Unsupported of string
exception Setup

let err_name = function
  | EInvalidArgument -> "invalid_argument" | ERuntime -> "runtime_error"
  | EOutOfRange -> "out_of_range" | ERange -> "range_error"
  | EOverflow -> "overflow_error" | EUnderflow -> "underflow_error"
  | ELogic -> "logic_error" | EBadCast -> "bad_lexical_cast" | EArgument -> "argument_error"
  | EOther -> "other"

let slot_kind slot =
  let k = ref 0 in
  while !k < String.length slot && not (slot.[!k] >= '0' && slot.[!k] <= '9') do incr k done;
  String.sub slot 0 !k

let key_of_spec spec =
  match parse_key (str_of_string spec) with Ok k -> k | _ -> raise Setup

let keys_of_list spec = List.map (fun s -> match parse_key (str_of_string s) with
    | Ok k -> k | _ -> raise (Unsupported "constraint key")) (split_on ';' spec)

let parse_arg tok =
  (* arg:<keyspec>:<slot>:<opts> *)
  let p1 = String.index_from tok 4 ':' in
  let p2 = try String.index_from tok (p1 + 1) ':' with Not_found -> String.length tok in
  let spec = String.sub tok 4 (p1 - 4) in
  let slot = String.sub tok (p1 + 1) (p2 - p1 - 1) in
  let opts = if p2 >= String.length tok then [] else split_on '/' (String.sub tok (p2 + 1) (String.length tok - p2 - 1)) in
  let kind = match slot_kind slot with
    | "b" -> DBool | "i" -> DInt | "s" -> DStr | "oi" -> DOptInt | "vi" -> DVecInt | "vs" -> DVecStr
    | "lc" -> DLevel
    | "af" -> DStr        (* the argument that names an argument file: a callable with a value, no destination *)
    | k -> raise (Unsupported ("slot kind " ^ k)) in
  let idx = int_of_string (after (slot_kind slot) slot) in
  let dflt_init = match kind with
    | DBool -> VBool (idx >= 2) | DInt -> VInt Z0 | DStr -> VStr [] | DOptInt -> VOpt None
    | DVecInt -> VInts [] | DVecStr -> VStrs [] | DLevel -> VLevel (Z0, false) in
  let d = ref { a_key = key_of_spec spec; a_kind = kind;
                a_vmode = (match kind with DBool -> VMNone | DLevel -> VMOptional | _ -> VMRequired);
                a_mand = false; a_multi = false; a_sep = n_of_int 44; a_clear = false; a_sort = false;
                a_uniq = false; a_uniq_err = false; a_checks = []; a_fmts = [];
                a_card = (match kind with DVecInt | DVecStr | DLevel -> CardNone | _ -> CardMax (z_of_int 1));
                a_excl = []; a_req = []; a_depr = false; a_mix = false } in
  let init = ref dflt_init in
  let is_cont = (kind = DVecInt || kind = DVecStr) in
  List.iter (fun o ->
      let name, v = match String.index_opt o '=' with
        | Some i -> String.sub o 0 i, String.sub o (i + 1) (String.length o - i - 1)
        | None -> o, "" in
      let p = split_on '~' v in
      let d0 = !d in
      match name with
      | "man" -> if kind = DBool || d0.a_depr then raise Setup else d := { d0 with a_mand = true }
      | "vm" -> (match v with
          | "req" -> if d0.a_vmode = VMRequired then () else if is_cont then raise Setup else d := { d0 with a_vmode = VMRequired }
          | "opt" -> if d0.a_vmode = VMOptional then () else if kind = DLevel then d := { d0 with a_vmode = VMOptional }
                     else raise (Unsupported "vm=opt")
          | _ -> raise (Unsupported "vm"))
      | "multi" -> if is_cont then d := { d0 with a_multi = true } else raise Setup
      | "sep" -> if is_cont then d := { d0 with a_sep = n_of_int (int_of_string ("0x" ^ v)) } else raise Setup
      | "clear" -> if is_cont then d := { d0 with a_clear = true } else raise Setup
      | "sort" -> if is_cont then d := { d0 with a_sort = true } else raise Setup
      | "uniq" -> if is_cont then d := { d0 with a_uniq = true; a_uniq_err = false } else raise Setup
      | "uniq!" -> if is_cont then d := { d0 with a_uniq = true; a_uniq_err = true } else raise Setup
      | "depr" -> if d0.a_mand then raise Setup else d := { d0 with a_depr = true }
      | "mix" -> if kind = DLevel then d := { d0 with a_mix = true } else raise Setup
      | "card" -> (match p with
          | ["max"; n] -> d := { d0 with a_card = CardMax (z_of_int (int_of_string n)) }
          | ["exact"; n] -> d := { d0 with a_card = CardExact (z_of_int (int_of_string n)) }
          | ["range"; a; b] -> d := { d0 with a_card = CardRange (z_of_int (int_of_string a), z_of_int (int_of_string b)) }
          | _ -> d := { d0 with a_card = CardNone })
      | "chk" ->
          if kind = DBool then raise Setup;
          (match kind, p with
           | DLevel, ("values" | "ivalues" | "minlen" | "maxlen" | "pattern") :: _ -> raise (Unsupported "text check on level counter")
           | _ -> ());
          let c = match p with
            | ["lower"; x] -> CLower (z_of_int (int_of_string x))
            | ["upper"; x] -> CUpper (z_of_int (int_of_string x))
            | ["range"; a; b] -> CRange (z_of_int (int_of_string a), z_of_int (int_of_string b))
            | "values" :: l -> if l = [] then raise Setup else CValues (List.map str_of_string l)
            | "ivalues" :: l -> if l = [] then raise Setup else CIValues (List.map str_of_string l)
            | ["minlen"; n] -> CMinLen (nat_of_int (int_of_string n))
            | ["maxlen"; n] -> CMaxLen (nat_of_int (int_of_string n))
            | _ -> raise (Unsupported "check") in
          (* ICheck::combinationAllowed: two checks of the same kind are refused *)
          let same a b = match a, b with
            | CLower _, CLower _ | CUpper _, CUpper _ | CRange _, CRange _ | CValues _, CValues _
            | CValues _, CIValues _ | CIValues _, CValues _ | CIValues _, CIValues _
            | CMinLen _, CMinLen _ | CMaxLen _, CMaxLen _ -> true | _ -> false in
          if List.exists (same c) d0.a_checks then raise (Unsupported "two checks of one kind");
          d := { d0 with a_checks = d0.a_checks @ [c] }
      | "fmt" -> if kind = DBool then raise Setup
          else d := { d0 with a_fmts = d0.a_fmts @ [if v = "upper" then FUpper else FLower] }
      | "excl" -> d := { d0 with a_excl = d0.a_excl @ keys_of_list v }
      | "req" -> d := { d0 with a_req = d0.a_req @ keys_of_list v }
      | "init" -> init := (match kind with
          | DBool -> VBool (v = "1") | DInt -> VInt (z_of_int (int_of_string v)) | DStr -> VStr (str_of_string (unhex v))
          | DOptInt -> VOpt (Some (z_of_int (int_of_string v)))
          | DVecInt -> VInts (List.map (fun x -> z_of_int (int_of_string x)) p)
          | DVecStr -> VStrs (List.map (fun x -> str_of_string (unhex x)) p)
          | DLevel -> raise (Unsupported "init on level counter"))
      | "desc" | "hidden" | "nodef" | "def" | "try" -> ()
      | "" -> ()
      | o -> raise (Unsupported ("option " ^ o))) opts;
  (slot, !d, !init)

let show_value = function
  | VBool b -> if b then "1" else "0"
  | VInt z -> string_of_int (int_of_z z)
  | VStr s -> "s" ^ hex (string_of_str s)
  | VOpt None -> "none"
  | VOpt (Some z) -> string_of_int (int_of_z z)
  | VInts l -> "[" ^ String.concat "," (List.map (fun z -> string_of_int (int_of_z z)) l) ^ "]"
  | VStrs l -> "[" ^ String.concat "," (List.map (fun s -> "s" ^ hex (string_of_str s)) l) ^ "]"
  | VLevel (z, _) -> string_of_int (int_of_z z)

let () =
  let ic = if Array.length Sys.argv > 1 then open_in Sys.argv.(1) else stdin in
  try
    while true do
      let line = input_line ic in
      match String.split_on_char ' ' (String.trim line) with
      | [] | [""] -> ()
      | id :: toks when List.exists (starts "split:") toks ->
          let t = List.find (starts "split:") toks in
          let ws = split (str_of_string (unhex (after "split:" t))) in
          Printf.printf "%s ok words=%s ## argc=%d\n" id
            (if ws = [] then "-" else String.concat "," (List.map (fun w -> hex (string_of_str w)) ws))
            (List.length ws)
      | id :: toks ->
          (try
             let members = ref [] in   (* (is_group, flags, args rev, cons rev) newest first *)
             let argv = ref [] and file = ref None and env = ref None and sline = ref None
             and pinned = ref false and pinned_grp = ref false and pinned_end = ref false and xfiles = ref []
             and subspecs = ref [] and subrules = ref [] and pinned_sub = ref false in
             let push_arg t = match !members with
               | (g, f, a, c) :: r -> members := (g, f, t :: a, c) :: r | [] -> raise (Unsupported "arg before handler") in
             let push_con t = match !members with
               | (g, f, a, c) :: r -> members := (g, f, a, t :: c) :: r | [] -> raise (Unsupported "con before handler") in
             List.iter (fun t ->
                 if starts "H:f=" t then members := (false, int_of_string (after "H:f=" t), [], []) :: !members
                 else if starts "G:" t || starts "GV:" t then   (* GV: a value handler as member - the same as far as the evaluation goes *)
                   (match String.split_on_char ':' t with
                    | [_; _; f] -> members := (true, int_of_string (after "f=" f), [], []) :: !members
                    | _ -> raise (Unsupported "group token"))
                 else if starts "arg:" t then push_arg t
                 else if starts "con:" t then push_con t
                 else if starts "argv:" t then argv := List.map unhex (split_on ',' (after "argv:" t))
                 else if starts "file:" t then file := Some (unhex (after "file:" t))
                 else if starts "env:" t then env := Some (unhex (after "env:" t))
                 else if starts "line:" t then sline := Some (unhex (after "line:" t))
                 else if t = "model:pinned" then pinned := true
                 else if t = "model:pinned-group-values" then pinned_grp := true
                 else if t = "model:pinned-group-end" then pinned_end := true
                 else if starts "prog:" t then ()
                 else if starts "xfile:" t then
                   (match String.split_on_char ':' t with
                    | [_; n; cnt] -> xfiles := (str_of_string (unhex n), str_of_string (unhex cnt)) :: !xfiles
                    | _ -> raise (Unsupported "xfile token"))
                 else if starts "GS:" t then ()      (* flags of the Groups singleton: usage behaviour only *)
                 else if starts "xdir:" t then
                   (* a directory opens like a file and delivers no line *)
                   xfiles := (str_of_string (unhex (after "xdir:" t)), []) :: !xfiles
                 else if starts "S:" t then
                   (match String.split_on_char ':' t with
                    | _ :: spec :: f :: rest ->
                        members := (false, int_of_string (after "f=" f), [], []) :: !members;
                        subspecs := (List.length !members - 1, spec) :: !subspecs;
                        (* options of the sub-group argument itself: man, card=... *)
                        let opts = match rest with [] -> [] | o :: _ -> split_on '/' o in
                        let rule = List.fold_left (fun (m, cd) o ->
                            match String.split_on_char '=' o with
                            | [""] | ["subctor"] -> (m, cd)
                            | ["man"] -> (true, cd)
                            | ["card"; v] ->
                                (match split_on '~' v with
                                 | ["max"; n] -> (m, CardMax (z_of_int (int_of_string n)))
                                 | ["exact"; n] -> (m, CardExact (z_of_int (int_of_string n)))
                                 | ["range"; a; b] -> (m, CardRange (z_of_int (int_of_string a), z_of_int (int_of_string b)))
                                 | _ -> (m, CardNone))
                            | _ -> raise (Unsupported "sub-group option")) (false, CardNone) opts in
                        subrules := rule :: !subrules
                    | _ -> raise (Unsupported "sub-group token"))
                 else if starts "late:" t then raise (Unsupported "definitions behind a sub-group argument")
                 else if t = "model:pinned-subgroup" then pinned_sub := true
                 else if starts "order:" t then ()   (* definition order across members: no influence on the model *)
                 else if t = "out:usage" then raise (Unsupported "usage")) toks;
             let members = List.rev !members in
             if members = [] then raise (Unsupported "no handler");
             let is_group = List.exists (fun (g, _, _, _) -> g) members in
             List.iter (fun (_, f, _, _) -> if f land (lnot 0xF0) <> 0 then raise (Unsupported "handler flags")) members;
             (* definitions in order: a refused definition is a setup error; in a group the key must be free in
                every member (crossCheckArguments) = free in the merged table *)
             let merged = ref [] and dropped = ref [] in
             let has_subs = !subspecs <> [] in
             let build (_, flags, args, cons) =
               if has_subs then merged := [];       (* every handler has its own key table *)
               let defs = List.map parse_arg (List.rev args) in
               (* a refused definition marked "try" is dropped (its slot keeps its initial value) *)
               let tolerated = List.map (fun t -> List.mem "try" (split_on '/' (String.concat ":" (List.tl (List.tl (List.tl (String.split_on_char ':' t))))))) (List.rev args) in
               let defs = List.concat (List.map2 (fun (sl, d, i) tol ->
                   match add_argument !merged d.a_key () with
                   | Ok t' -> merged := t'; [(sl, d, i)]
                   | _ -> if tol then (dropped := (sl, i) :: !dropped; []) else raise Setup) defs tolerated) in
               let index_of_key k =
                 let rec go i = function
                   | [] -> raise Setup     (* constraint names an unknown argument *)
                   | (_, d, _) :: r -> if key_eq d.a_key k then i else go (i + 1) r in
                 go 0 defs in
               let kind_of i = let (_, d, _) = List.nth defs i in d.a_kind in
               let value_con spec =
                 let ixs = List.map index_of_key (keys_of_list spec) in
                 let rec dup = function [] -> false | x :: r -> List.mem x r || dup r in
                 if dup ixs then raise Setup;
                 (match ixs with
                  | i :: r -> if List.exists (fun j -> kind_of j <> kind_of i) r then raise Setup
                  | [] -> raise Setup);
                 ixs in
               let gcons = List.map (fun t ->
                   match String.split_on_char ':' t with
                   | [_; "all_of"; spec] -> GCAll (keys_of_list spec)
                   | [_; "any_of"; spec] -> GCAny (keys_of_list spec)
                   | [_; "one_of"; spec] -> GCOne (keys_of_list spec)
                   | [_; "differ"; spec] ->
                       let ixs = value_con spec in
                       if List.length ixs < 2 then raise Setup;
                       (match kind_of (List.hd ixs) with DInt | DStr -> () | _ -> raise (Unsupported "differ kind"));
                       GCDiffer (List.map nat_of_int ixs)
                   | [_; "disjoint"; spec] ->
                       (match keys_of_list spec with
                        | [_; _] -> ()
                        | l -> if List.length l > 2 then raise Setup else raise Setup);
                       (match value_con spec with
                        | [i; j] ->
                            (match kind_of i with DVecInt | DVecStr -> () | _ -> raise (Unsupported "disjoint kind"));
                            GCDisjoint (nat_of_int i, nat_of_int j)
                        | _ -> raise Setup)
                   | _ -> raise (Unsupported "constraint")) (List.rev cons) in
               let c = { args = List.map (fun (_, d, _) -> d) defs; gcons = gcons;
                         abbr = (flags land 0x80 = 0); fixed_notify = not !pinned } in
               (c, List.map (fun (_, _, i) -> i) defs, List.map (fun (s, _, _) -> s) defs, flags) in
             let built = List.map build members in
             let show slots arts = List.map2 (fun sl a -> sl ^ "=" ^ show_value a.val0) slots arts in
             if has_subs && is_group then begin
               (* members of a group that own sub-group arguments: ArgH/GroupsGen.v.  A sub-group handler (S:)
                  belongs to the group member (G:) defined last before it *)
               if !file <> None || !env <> None || !sline <> None || !xfiles <> [] then raise (Unsupported "group with sources");
               let indexed = List.mapi (fun i b -> (i, b)) built in
               let is_sub i = List.mem_assoc i !subspecs in
               let rules = List.combine (List.rev_map fst !subspecs) (List.rev !subrules) in
               (* fold over the handlers in order: a G member opens a new entry, an S handler is added to the last *)
               let grp = List.fold_left (fun acc (i, b) ->
                   if is_sub i then
                     (match acc with
                      | (main, subs) :: r -> (main, subs @ [(i, b)]) :: r
                      | [] -> raise (Unsupported "sub-group without member"))
                   else (b, []) :: acc) [] indexed in
               let grp = List.rev grp in
               let cs = List.map (fun ((mc, _, _, _), subs) ->
                   { sg_main = mc;
                     sg_subs = List.map (fun (i, (c, _, _, _)) -> (key_of_spec (List.assoc i !subspecs), c)) subs;
                     sg_rules = List.map (fun (i, _) -> List.assoc i rules) subs }) grp in
               if not (grp_keys_ok cs) then raise Setup;
               let inits = List.map (fun ((_, mi, _, _), subs) -> (mi, List.map (fun (_, (_, i, _, _)) -> i) subs)) grp in
               (match eval_group_sg cs inits (List.map str_of_string !argv) with
                | Ok sts ->
                    let vals = List.sort compare (List.concat (List.map2 (fun ((_, _, msl, _), subs) st ->
                        show msl st.sm.arts @ List.concat (List.map2 (fun (_, (_, _, sl, _)) s -> show sl s.arts) subs st.ss)) grp sts)) in
                    Printf.printf "%s ok %s ## -\n" id (String.concat " " vals)
                | Err e -> Printf.printf "%s err ## %s\n" id (err_name e)
                | Fault _ -> Printf.printf "%s FAULT ## fault\n" id)
             end else
             if has_subs then begin
               if !file <> None || !env <> None || !sline <> None || !xfiles <> [] then raise (Unsupported "sub-group with sources");
               let indexed = List.mapi (fun i b -> (i, b)) built in
               let is_sub i = List.mem_assoc i !subspecs in
               let mains = List.filter (fun (i, _) -> not (is_sub i)) indexed in
               let subs = List.filter (fun (i, _) -> is_sub i) indexed in
               let (mc, minits, mslots, _) = match mains with [(_, b)] -> b | _ -> raise (Unsupported "sub-groups need one main handler") in
               (* the sub-group arguments live in a key table of their own: duplicates there are refused *)
               let subtab = ref [] in
               let sgsubs = List.map (fun (i, (c, _, _, _)) ->
                   let k = key_of_spec (List.assoc i !subspecs) in
                   (match add_argument !subtab k () with Ok t' -> subtab := t' | _ -> raise Setup);
                   (k, c)) subs in
               let sgc = { sg_main = mc; sg_subs = sgsubs; sg_rules = List.rev !subrules } in
               (* one key, one argument - plain or sub-group (ArgH/SubGroup.v) *)
               if not (sg_keys_ok sgc) then raise Setup;
               (match eval_sg !pinned_sub sgc minits (List.map (fun (_, (_, i, _, _)) -> i) subs) (List.map str_of_string !argv) with
                | Ok st ->
                    let vals = List.sort compare
                        (show mslots st.sm.arts @ List.concat (List.map2 (fun (_, (_, _, sl, _)) s -> show sl s.arts) subs st.ss)) in
                    Printf.printf "%s ok %s ## -\n" id (String.concat " " vals)
                | Err e -> Printf.printf "%s err ## %s\n" id (err_name e)
                | Fault _ -> Printf.printf "%s FAULT ## fault\n" id)
             end else
             if is_group then begin
               let cs = List.map (fun (c, _, _, _) -> c) built in
               let initss = List.map (fun (_, i, _, _) -> i) built in
               (match eval_group !pinned_grp !pinned_end cs initss (List.map str_of_string !argv) with
                | Ok ss ->
                    let vals = List.sort compare (List.concat (List.map2 (fun (_, _, sl, _) s -> show sl s.arts) built ss)) in
                    Printf.printf "%s ok %s ## -\n" id (String.concat " " vals)
                | Err e -> Printf.printf "%s err ## %s\n" id (err_name e)
                | Fault _ -> Printf.printf "%s FAULT ## fault\n" id)
             end else begin
               let (c, inits, slots, flags) = List.hd built in
               let file = if flags land 0x10 <> 0 then !file else None in
               let env = if flags land 0x20 <> 0 then !env else None in
               (* index of the argument-file argument (slot af<n>), if one is defined *)
               let rec af_index i = function
                 | [] -> None
                 | sl :: r -> if slot_kind sl = "af" then Some i else af_index (i + 1) r in
               let r = match !sline, af_index 0 slots with
                 | Some l, None -> eval_string c inits (str_of_string l)
                 | Some _, Some _ -> raise (Unsupported "argument file argument with evalArgumentString")
                 | None, None -> eval_sources c inits (Option.map str_of_string file) (Option.map str_of_string env)
                                   (List.map str_of_string !argv)
                 | None, Some i ->
                     eval_sources_af c { af_idx = nat_of_int i; af_files = List.rev !xfiles } inits
                       (Option.map str_of_string file) (Option.map str_of_string env) (List.map str_of_string !argv) in
               (match r with
                | Ok s ->
                    let shown = List.filter (fun (sl, _) -> slot_kind sl <> "af") (List.combine slots s.arts) in
                    let slots = List.map fst shown in
                    let s = { s with arts = List.map snd shown } in
                    let vals = List.sort compare (show slots s.arts @ List.map (fun (sl, i) -> sl ^ "=" ^ show_value i) !dropped) in
                    Printf.printf "%s ok %s ## -\n" id (String.concat " " vals)
                | Err e -> Printf.printf "%s err ## %s\n" id (err_name e)
                | Fault _ -> Printf.printf "%s FAULT ## fault\n" id)
             end
           with
           | Unsupported w -> Printf.printf "%s unsupported ## %s\n" id w
           | Setup -> Printf.printf "%s setup ## -\n" id)
    done
  with End_of_file -> ()
