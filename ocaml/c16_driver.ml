(* Driver for the extracted C16 model; case format: see harness/c16_harness.cpp.
   The strftime table of the case ("<fmt hex>@<ts>=<expansion hex>,...") is what
   the Section variable strftime_ of the model is instantiated with.
   I/O only - every decision is taken by the extracted Coq functions. *)
open C16_model

let rec nat_of_int i = if i <= 0 then O else S (nat_of_int (i - 1))
let rec int_of_nat = function O -> 0 | S n -> 1 + int_of_nat n
let rec pos_of_int i =
  if i = 1 then XH
  else if i land 1 = 0 then XO (pos_of_int (i lsr 1))
  else XI (pos_of_int (i lsr 1))
let n_of_int i = if i = 0 then N0 else Npos (pos_of_int i)
let z_of_int i = if i = 0 then Z0 else if i > 0 then Zpos (pos_of_int i) else Zneg (pos_of_int (- i))
let rec int_of_pos = function
  | XH -> 1 | XO p -> 2 * int_of_pos p | XI p -> 2 * int_of_pos p + 1
let int_of_n = function N0 -> 0 | Npos p -> int_of_pos p
let int_of_z = function Z0 -> 0 | Zpos p -> int_of_pos p | Zneg p -> - (int_of_pos p)

let bytes_of_hex s =
  if s = "-" || s = "" then [] else
  let n = String.length s / 2 in
  List.init n (fun i -> n_of_int (int_of_string ("0x" ^ String.sub s (2 * i) 2)))
let hex_of_bytes l =
  if l = [] then "-" else
  String.concat "" (List.map (fun b -> Printf.sprintf "%02x" (int_of_n b)) l)

let fault_name = function
  | OOBRead -> "oob_read" | OOBWrite -> "oob_write" | Starved -> "starved"
  | BadFree -> "bad_free" | NullDeref -> "null" | Fuel -> "fuel" | Wrap -> "wrap"

let ftype_of_code = function
  | "co" -> FConstant | "da" -> FDate | "ti" -> FTime | "ms" -> FTimeMs | "us" -> FTimeUs
  | "dt" -> FDateTime | "pi" -> FPid | "th" -> FThreadId | "ln" -> FLineNbr | "fu" -> FFunctionName
  | "fi" -> FFileName | "le" -> FMsgLevel | "cl" -> FMsgClass | "er" -> FErrorNbr | "tx" -> FText
  | _ -> FAttribute
let code_of_ftype = function
  | FConstant -> "co" | FDate -> "da" | FTime -> "ti" | FTimeMs -> "ms" | FTimeUs -> "us"
  | FDateTime -> "dt" | FPid -> "pi" | FThreadId -> "th" | FLineNbr -> "ln" | FFunctionName -> "fu"
  | FFileName -> "fi" | FMsgLevel -> "le" | FMsgClass -> "cl" | FErrorNbr -> "er" | FText -> "tx"
  | FAttribute -> "at"

let tail s k = String.sub s k (String.length s - k)
let optstr a = if a = "~" then None else Some (bytes_of_hex a)
let nth l i = List.nth l i
let fields s = String.split_on_char ':' s

let parse_op o : wop list =
  if o = "" || o = "-" then [] else
  let a = tail o 1 in
  match o.[0] with
  | 'K' -> [WC (ONew (optstr a))]
  | 'w' -> [WC (OWidth (z_of_int (int_of_string a)))]
  | 'l' -> [WC OLeft]
  | 'f' -> [WC (OFmt (bytes_of_hex a))]
  | 's' -> [WC (OSep (optstr a))]
  | 'c' -> [WC (OConst (bytes_of_hex a))]
  | 'a' -> [WC (OAttr (bytes_of_hex a))]
  | 't' -> [WC (OField (ftype_of_code a))]
  | 'G' ->
      let f = fields (tail a 1) in
      if a.[0] = 'A' then [WA (GAdd (bytes_of_hex (nth f 0), bytes_of_hex (nth f 1)))]
      else [WA (GRemove (bytes_of_hex (nth f 0)))]
  | 'S' ->
      if a.[0] = 'O' then
        let f = fields (tail a 1) in
        [WA (SOpen (bytes_of_hex (nth f 0), bytes_of_hex (nth f 1)))]
      else [WA SClose]
  | 'L' ->
      let f = fields (tail a 1) in
      (match a.[0] with
       | 'N' -> [WA (LNew (if nth f 0 = "-" then None else Some (nat_of_int (int_of_string (nth f 0)))))]
       | 'A' -> [WA (LAdd (nat_of_int (int_of_string (nth f 0)), bytes_of_hex (nth f 1), bytes_of_hex (nth f 2)))]
       | 'R' -> [WA (LRemove (nat_of_int (int_of_string (nth f 0)), bytes_of_hex (nth f 1)))]
       | _ -> [WA (LRemoveLast (nat_of_int (int_of_string (nth f 0))))])
  | 'M' ->
      let f = fields a in
      let i k = int_of_string (nth f k) in
      let m = { m_ts = n_of_int (i 5); m_us = n_of_int (i 6); m_pid = z_of_int (i 7);
                m_tid = n_of_int (i 8); m_file = bytes_of_hex (nth f 9); m_func = bytes_of_hex (nth f 10);
                m_line = z_of_int (i 4); m_level = n_of_int (i 1); m_class = n_of_int (i 2);
                m_err = z_of_int (i 3); m_text = bytes_of_hex (nth f 11) } in
      [WMsg (m, (if nth f 0 = "-" then None else Some (nat_of_int (i 0))))]
  | _ -> []

let () =
  let ic = if Array.length Sys.argv > 1 then open_in Sys.argv.(1) else stdin in
  try
    while true do
      let line = input_line ic in
      match String.split_on_char ' ' (String.trim line) with
      | [id; table; ops] ->
          let tbl = Hashtbl.create 16 in
          if table <> "-" then
            List.iter (fun e ->
                match String.split_on_char '=' e with
                | [k; v] -> Hashtbl.replace tbl k (bytes_of_hex v)
                | _ -> ()) (String.split_on_char ',' table);
          let strftime_ fmt ts =
            let k = hex_of_bytes fmt ^ "@" ^ string_of_int (int_of_n ts) in
            try Hashtbl.find tbl k with Not_found -> bytes_of_hex "3f3f" in
          let ops = List.concat_map parse_op (String.split_on_char ';' ops) in
          let pinned = (try Sys.getenv "C16_MODEL" = "pinned" with Not_found -> false) in
          let (outs, w) = (if pinned then run_pinned else run) strftime_ world_init ops in
          let prop = List.map (function
              | Ok s -> hex_of_bytes s
              | Err _ -> "E:exception"
              | Fault f -> "F:" ^ fault_name f) outs in
          let intl = List.map (fun fd ->
              Printf.sprintf "%s:%s:%d:%s" (code_of_ftype fd.f_type) (hex_of_bytes fd.f_const)
                (int_of_z fd.f_width) (if fd.f_left then "l" else "r")) w.x_def in
          Printf.printf "%s %s ## %s\n" id
            (if prop = [] then "none" else String.concat " " prop)
            (if intl = [] then "-" else String.concat "," intl)
      | _ -> ()
    done
  with End_of_file -> ()
