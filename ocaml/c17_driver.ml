(* Driver for the extracted C17 model: one case per line
     <id> <indent> <width> <indentFirst 0|1> <text as hex | ->
   prints  <id> <output as hex | -> ##
   I/O only - every decision is taken by the extracted Coq functions. *)
open C17_model

let rec nat_of_int i = if i <= 0 then O else S (nat_of_int (i - 1))
let rec int_of_nat = function O -> 0 | S n -> 1 + int_of_nat n
let rec pos_of_int i =
  if i = 1 then XH
  else if i land 1 = 0 then XO (pos_of_int (i lsr 1))
  else XI (pos_of_int (i lsr 1))
let n_of_int i = if i = 0 then N0 else Npos (pos_of_int i)
let rec int_of_pos = function
  | XH -> 1 | XO p -> 2 * int_of_pos p | XI p -> 2 * int_of_pos p + 1
let int_of_n = function N0 -> 0 | Npos p -> int_of_pos p

let bytes_of_hex s =
  if s = "-" then [] else
  let n = String.length s / 2 in
  List.init n (fun i -> n_of_int (int_of_string ("0x" ^ String.sub s (2 * i) 2)))
let hex_of_bytes l =
  if l = [] then "-" else
  String.concat "" (List.map (fun b -> Printf.sprintf "%02x" (int_of_n b)) l)

let () =
  let ic = if Array.length Sys.argv > 1 then open_in Sys.argv.(1) else stdin in
  try
    while true do
      let line = input_line ic in
      match String.split_on_char ' ' (String.trim line) with
      | [id; ind; width; first; txt] ->
          let ind = nat_of_int (int_of_string ind) in
          let width = nat_of_int (int_of_string width) in
          let first = first = "1" in
          let txt = bytes_of_hex txt in
          let out = format ind width first txt in
          let _ = format_lines in
          Printf.printf "%s %s ##\n" id (hex_of_bytes out)
      | _ -> ()
    done
  with End_of_file -> ()
