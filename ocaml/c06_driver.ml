(* Driver for the extracted C06 model (multi-value destinations).  Reads the
   case format of harness/args_harness.cpp restricted to ONE container argument
   and prints results in the same format.  I/O and the translation of the
   configuration tokens into the model's [kind]/[copts]/[cont] only; whether a
   configuration is accepted, how the words of the command line are routed and
   what ends up in the destination is decided by extracted Coq code. *)
open C06_model

let rec nat_of_int i = if i <= 0 then O else S (nat_of_int (i - 1))
let rec int_of_nat = function O -> 0 | S n -> 1 + int_of_nat n
let rec pos_of_int i =
  if i = 1 then XH else if i land 1 = 0 then XO (pos_of_int (i lsr 1)) else XI (pos_of_int (i lsr 1))
let n_of_int i = if i = 0 then N0 else Npos (pos_of_int i)
let z_of_int i = if i = 0 then Z0 else if i > 0 then Zpos (pos_of_int i) else Zneg (pos_of_int (-i))
let rec int_of_pos = function XH -> 1 | XO p -> 2 * int_of_pos p | XI p -> 2 * int_of_pos p + 1
let int_of_n = function N0 -> 0 | Npos p -> int_of_pos p
let int_of_z = function Z0 -> 0 | Zpos p -> int_of_pos p | Zneg p -> - (int_of_pos p)

let str_of_string s = List.init (String.length s) (fun i -> n_of_int (Char.code s.[i]))
let string_of_str l = String.concat "" (List.map (fun c -> String.make 1 (Char.chr (int_of_n c))) l)
let unhex s =
  if s = "-" then "" else String.init (String.length s / 2) (fun i -> Char.chr (int_of_string ("0x" ^ String.sub s (2 * i) 2)))
let hex s = if s = "" then "-" else String.concat "" (List.init (String.length s) (fun i -> Printf.sprintf "%02x" (Char.code s.[i])))

let starts p s = String.length s >= String.length p && String.sub s 0 (String.length p) = p
let after p s = String.sub s (String.length p) (String.length s - String.length p)
let split_on c s = if s = "" || s = "-" then [] else String.split_on_char c s

exception Unsupported of string
exception Setup

let err_name = function
  | EInvalidArgument -> "invalid_argument" | ERuntime -> "runtime_error"
  | EOutOfRange -> "out_of_range" | ERange -> "range_error"
  | EOverflow -> "overflow_error" | EUnderflow -> "underflow_error"
  | ELogic -> "logic_error" | EBadCast -> "bad_lexical_cast" | EArgument -> "argument_error"
  | EOther -> "other"

let slot_kind slot =
  let k = ref 0 in
  while !k < String.length slot && not (slot.[!k] >= '0' && slot.[!k] <= '9') do incr k done;
  String.sub slot 0 !k

let kind_of = function
  | "vi" -> KVec | "di" -> KDeque | "li" -> KList | "qi" -> KQueue | "fi" -> KFwd | "ki" -> KStack
  | "si" -> KSet | "mi" -> KMSet | "usi" -> KUSet | "umi" -> KUMSet | "pi" -> KPrio
  | "ai" -> KArr (nat_of_int 4) | "ri" -> KStdArr (nat_of_int 4) | "vs" -> KVecStr | "ti" -> KTuple
  | "bs" -> KBitset (n_of_int 16) | "vb" -> KVecBool | "ms" -> KMap
  | "mms" -> KMMap | "ums" -> KUMap | "umms" -> KUMMap
  | k -> raise (Unsupported ("slot kind " ^ k))

let ints l = "[" ^ String.concat "," (List.map (fun z -> string_of_int (int_of_z z)) l) ^ "]"
let poss l = "[" ^ String.concat "," (List.map (fun n -> string_of_int (int_of_n n)) l) ^ "]"
let sstr s = "s" ^ hex (string_of_str s)

let show = function
  | CInts l -> ints l
  | CArr (l, _) -> ints l
  | CStrs l -> "[" ^ String.concat "," (List.map sstr l) ^ "]"
  | CTuple (a, s, b, _) -> "(" ^ string_of_int (int_of_z a) ^ "," ^ sstr s ^ "," ^ string_of_int (int_of_z b) ^ ")"
  | CBits l -> poss l
  | CVBool (n, l) -> string_of_int (int_of_n n) ^ poss l
  | CMap l -> "{" ^ String.concat "," (List.map (fun (k, v) -> sstr k ^ ":" ^ string_of_int (int_of_z v)) l) ^ "}"

let parse_arg tok =
  let p1 = String.index_from tok 4 ':' in
  let p2 = try String.index_from tok (p1 + 1) ':' with Not_found -> String.length tok in
  let slot = String.sub tok (p1 + 1) (p2 - p1 - 1) in
  let opts = if p2 >= String.length tok then [] else split_on '/' (String.sub tok (p2 + 1) (String.length tok - p2 - 1)) in
  let sk = slot_kind slot in
  let k = kind_of sk in
  let o = ref { o_sep = default_sep k; o_clear = false; o_sort = false; o_uniq = false; o_dup_err = false;
                o_multi = false; o_checks = []; o_ftab = []; o_card = default_card k } in
  (* the setters decide (extracted add_format / add_format_pos): a refusal is a setup error *)
  let setter r = match r with Ok tab -> tab | _ -> raise Setup in
  let init = ref [] and have_init = ref false in
  List.iter (fun opt ->
      let name, v = match String.index_opt opt '=' with
        | Some i -> String.sub opt 0 i, String.sub opt (i + 1) (String.length opt - i - 1)
        | None -> opt, "" in
      let p = split_on '~' v in
      let o0 = !o in
      match name with
      | "multi" -> o := { o0 with o_multi = true }
      | "sep" -> o := { o0 with o_sep = n_of_int (int_of_string ("0x" ^ v)) }
      | "clear" -> o := { o0 with o_clear = true }
      | "sort" -> o := { o0 with o_sort = true }
      | "uniq" -> o := { o0 with o_uniq = true; o_dup_err = false }
      | "uniq!" -> o := { o0 with o_uniq = true; o_dup_err = true }
      | "card" -> (match p with
          | ["max"; n] -> o := { o0 with o_card = CardMax (z_of_int (int_of_string n)) }
          | ["exact"; n] -> o := { o0 with o_card = CardExact (z_of_int (int_of_string n)) }
          | ["range"; a; b] -> o := { o0 with o_card = CardRange (z_of_int (int_of_string a), z_of_int (int_of_string b)) }
          | _ -> o := { o0 with o_card = CardNone })
      | "chk" ->
          let c = match p with
            | ["lower"; x] -> CLower (z_of_int (int_of_string x))
            | ["upper"; x] -> CUpper (z_of_int (int_of_string x))
            | ["range"; a; b] -> CRange (z_of_int (int_of_string a), z_of_int (int_of_string b))
            | "values" :: l -> if l = [] then raise Setup else CValues (List.map str_of_string l)
            | "ivalues" :: l -> if l = [] then raise Setup else CIValues (List.map str_of_string l)
            | ["minlen"; n] -> CMinLen (nat_of_int (int_of_string n))
            | ["maxlen"; n] -> CMaxLen (nat_of_int (int_of_string n))
            | _ -> raise (Unsupported "check") in
          let same a b = match a, b with
            | CLower _, CLower _ | CUpper _, CUpper _ | CRange _, CRange _ | CValues _, CValues _
            | CMinLen _, CMinLen _ | CMaxLen _, CMaxLen _ -> true | _ -> false in
          if List.exists (same c) o0.o_checks then raise (Unsupported "two checks of one kind");
          o := { o0 with o_checks = o0.o_checks @ [c] }
      | "fmt" -> o := { o0 with o_ftab = setter (add_format k o0.o_ftab (if v = "upper" then FUpper else FLower)) }
      | "fmtpos" -> (match p with
          | [i; f] -> o := { o0 with o_ftab = setter (add_format_pos k o0.o_ftab (z_of_int (int_of_string i))
                                                       (if f = "upper" then FUpper else FLower)) }
          | _ -> raise (Unsupported "fmtpos"))
      | "init" -> have_init := true; init := p
      | "desc" | "" -> ()
      | x -> raise (Unsupported ("option " ^ x))) opts;
  let zs () = List.map (fun x -> z_of_int (int_of_string x)) !init in
  let c = match k with
    | KArr _ | KStdArr _ ->
        let v = Array.make 4 Z0 in
        List.iteri (fun j z -> if j < 4 then v.(j) <- z) (zs ());
        CArr (Array.to_list v, O)
    | KVecStr -> CStrs (List.map (fun x -> str_of_string (unhex x)) !init)
    | KTuple -> if !have_init then raise Setup else CTuple (Z0, [], Z0, O)
    | KMap | KMMap | KUMap | KUMMap ->
        (* init=<key hex>.<int>~... : the pairs as the application inserted them (extracted init_map) *)
        let pair x = match String.index_opt x '.' with
          | Some i -> (str_of_string (unhex (String.sub x 0 i)),
                       z_of_int (int_of_string (String.sub x (i + 1) (String.length x - i - 1))))
          | None -> raise (Unsupported "init pair") in
        CMap (init_map k (List.map pair !init))
    | KBitset _ -> CBits (List.fold_left (fun acc x -> nset_add (n_of_int (int_of_string x)) acc) [] !init)
    | KVecBool ->
        (match !init with
         | [] -> CVBool (N0, [])
         | sz :: ps -> CVBool (n_of_int (int_of_string sz),
                               List.fold_left (fun acc x -> nset_add (n_of_int (int_of_string x)) acc) [] ps))
    | _ -> CInts (init_ints k (zs ())) in
  (slot, k, !o, c)

let () =
  let ic = if Array.length Sys.argv > 1 then open_in Sys.argv.(1) else stdin in
  let skip = ref (if Array.length Sys.argv > 2 then Some Sys.argv.(2) else None) in
  try
    while true do
      let line = input_line ic in
      match String.split_on_char ' ' (String.trim line) with
      | [] | [""] -> ()
      | id :: _ when (match !skip with Some s -> s <> id | None -> false) -> ()
      | id :: toks ->
          skip := None;
          (try
             let flags = ref 0 and args = ref [] and argv = ref [] and pinned = ref false in
             List.iter (fun t ->
                 if starts "H:f=" t then flags := int_of_string (after "H:f=" t)
                 else if starts "arg:" t then args := t :: !args
                 else if starts "argv:" t then argv := List.map unhex (split_on ',' (after "argv:" t))
                 else if t = "model:pinned" then pinned := true
                 else raise (Unsupported ("token " ^ t))) toks;
             if !flags <> 0 then raise (Unsupported "handler flags");
             (* one container argument, optionally one boolean flag argument *)
             let is_flag a =
               let p1 = String.index_from a 4 ':' in
               let p2 = try String.index_from a (p1 + 1) ':' with Not_found -> String.length a in
               slot_kind (String.sub a (p1 + 1) (p2 - p1 - 1)) = "b" in
             let conts = List.filter (fun a -> not (is_flag a)) !args and flags = List.filter is_flag !args in
             let (slot, k, o, c) = match conts with [a] -> parse_arg a | _ -> raise (Unsupported "one container argument expected") in
             let (fslot, fspell, finit) = match flags with
               | [] -> ("", [], false)
               | [a] ->
                   let p1 = String.index_from a 4 ':' in
                   let p2 = try String.index_from a (p1 + 1) ':' with Not_found -> String.length a in
                   let spec = String.sub a 4 (p1 - 4) in
                   let fs = String.sub a (p1 + 1) (p2 - p1 - 1) in
                   let opts = if p2 >= String.length a then [] else split_on '/' (String.sub a (p2 + 1) (String.length a - p2 - 1)) in
                   let idx = int_of_string (after "b" fs) in
                   let init = ref (idx >= 2) in
                   List.iter (fun opt -> if starts "init=" opt then init := (after "init=" opt = "1")
                               else if opt = "" then () else raise (Unsupported ("flag option " ^ opt))) opts;
                   let spell = List.map (fun w -> if String.length w = 1 then "-" ^ w else "--" ^ w)
                       (String.split_on_char ',' spec) in
                   (fs, spell, !init)
               | _ -> raise (Unsupported "at most one flag argument") in
             if not (setup_ok k o) then raise Setup;
             let words = List.map str_of_string !argv in
             (match (if !pinned then eval_pinned else eval) k o c (List.map str_of_string fspell) words with
              | Ok (st, fc) ->
                  let vals = (slot ^ "=" ^ show st.c_val) ::
                             (if fslot = "" then [] else [fslot ^ "=" ^ (if flag_value finit fc then "1" else "0")]) in
                  Printf.printf "%s ok %s ## - | - | -\n" id (String.concat " " (List.sort compare vals))
              | Err e -> Printf.printf "%s err ## %s\n" id (err_name e)
              | Fault _ -> Printf.printf "%s FAULT ## fault\n" id)
           with
           | Unsupported w -> Printf.printf "%s unsupported ## %s\n" id w
           | Setup -> Printf.printf "%s setup ## -\n" id)
    done
  with End_of_file -> ()
