(* Driver for the extracted C19 model: reads cases on stdin, one per line, and
   prints one result line per case in the format of harness/c19_harness.cpp.
   I/O only - every decision is taken by the extracted Coq functions. *)
open C19_model

let rec nat_of_int i = if i <= 0 then O else S (nat_of_int (i - 1))
let rec int_of_nat = function O -> 0 | S n -> 1 + int_of_nat n

let rec pos_of_int i =
  if i = 1 then XH
  else if i land 1 = 0 then XO (pos_of_int (i lsr 1))
  else XI (pos_of_int (i lsr 1))
let n_of_int i = if i = 0 then N0 else Npos (pos_of_int i)
let rec int_of_pos = function
  | XH -> 1 | XO p -> 2 * int_of_pos p | XI p -> 2 * int_of_pos p + 1
let int_of_n = function N0 -> 0 | Npos p -> int_of_pos p

let bytes_of_hex s =
  if s = "-" then [] else
  let n = String.length s / 2 in
  List.init n (fun i -> n_of_int (int_of_string ("0x" ^ String.sub s (2 * i) 2)))
let hex_of_bytes l =
  if l = [] then "-" else
  String.concat "" (List.map (fun b -> Printf.sprintf "%02x" (int_of_n b)) l)

let err_name = function
  | EInvalidArgument -> "invalid_argument" | ERuntime -> "runtime_error"
  | EOutOfRange -> "out_of_range" | ERange -> "range_error"
  | EOverflow -> "overflow_error" | EUnderflow -> "underflow_error"
  | ELogic -> "logic_error" | EBadCast -> "bad_cast" | EArgument -> "argument_error"
  | EOther -> "other"
let fault_name = function
  | OOBRead -> "oob_read" | OOBWrite -> "oob_write" | Starved -> "starved"
  | BadFree -> "bad_free" | NullDeref -> "null" | Fuel -> "fuel" | Wrap -> "wrap"

let split_on c s = if s = "-" || s = "" then [] else String.split_on_char c s

let () =
  let ic = if Array.length Sys.argv > 1 then open_in Sys.argv.(1) else stdin in
  try
    while true do
      let line = input_line ic in
      match String.split_on_char ' ' (String.trim line) with
      | [id; "R"; cap; stream; chunks; ops] ->
          let cap = nat_of_int (int_of_string cap) in
          let src = { s_rest = bytes_of_hex stream;
                      s_chunks = List.map (fun c -> nat_of_int (int_of_string c)) (split_on ',' chunks) } in
          let ops = List.map (fun o ->
              let nn = o.[0] <> 'z' in   (* n, p, q, r: destinations of 1, 2, 4, 8 byte elements; the length is in bytes *)
              (nn, nat_of_int (int_of_string (String.sub o 1 (String.length o - 1)))))
              (split_on ',' ops) in
          let ((outs, _), _) = rb_run (rb_init cap) src ops in
          let prop = List.map (function
              | RGot (bs, _) -> "G:" ^ hex_of_bytes bs
              | RErr e -> "E:" ^ err_name e
              | RFault f -> "F:" ^ fault_name f) outs in
          let intl = List.map (function
              | RGot (_, rq) ->
                  "[" ^ String.concat ";" (List.map (fun (o, l) ->
                      Printf.sprintf "%d:%d" (int_of_nat o) (int_of_nat l)) rq) ^ "]"
              | _ -> "[]") outs in
          Printf.printf "%s %s ## %s\n" id (String.concat " " prop) (String.concat " " intl)
      | [id; "W"; cap; ops] ->
          let cap = nat_of_int (int_of_string cap) in
          let fails = List.map (fun o -> o.[0] = 'x') (split_on ',' ops) in
          let ops = List.map (fun o ->
              let o = if o.[0] = 'x' then String.sub o 1 (String.length o - 1) else o in
              match o.[0] with
              | 'a' | 'b' | 'c' | 'd' ->   (* b, c, d: the same bytes handed over through a uint16_t / uint32_t / double pointer *)
                  WAppend (bytes_of_hex (String.sub o 1 (String.length o - 1)))
              | 'n' -> WAppendNull (nat_of_int (int_of_string (String.sub o 1 (String.length o - 1))))
              | _ -> WFlush) (split_on ',' ops) in
          (* run step by step so that the sink delta per operation can be printed *)
          let rec go b sk ops acc_p acc_i =
            match ops with
            | [] -> (List.rev acc_p, List.rev acc_i)
            | (o, fl) :: rest ->
                (* x<op>: the sink throws on the first write of this operation (Buffers/WFail.v) *)
                let (((outs, b'), sk'), _) = wb_run_f b sk [(o, not fl)] in
                let nold = List.length sk in
                let delta = List.filteri (fun i _ -> i >= nold) sk' in
                let p = match outs with
                  | [WOk n] -> Printf.sprintf "ok:%d:%s" (int_of_nat n) (hex_of_bytes (List.concat delta))
                  | [WErr e] -> "E:" ^ err_name e
                  | [WFault f] -> "F:" ^ fault_name f
                  | _ -> "?" in
                let i = "[" ^ String.concat ";" (List.map hex_of_bytes delta) ^ "]" in
                (match outs with
                 | [WFault _] -> (List.rev (p :: acc_p), List.rev (i :: acc_i))
                 | _ -> go b' sk' rest (p :: acc_p) (i :: acc_i)) in
          let (prop, intl) = go (wb_init cap) [] (List.combine ops fails) [] [] in
          Printf.printf "%s %s ## %s\n" id (String.concat " " prop) (String.concat " " intl)
      | _ -> ()
    done
  with End_of_file -> ()
