(* Driver for the extracted C13 model: reads the case file, prints one result
   line per case in the format of harness/c13_harness.cpp.  I/O only - every
   decision is taken by the extracted Coq functions. *)
open C13_model

let rec int_of_pos = function
  | XH -> 1 | XO p -> 2 * int_of_pos p | XI p -> 2 * int_of_pos p + 1
let int_of_n = function N0 -> 0 | Npos p -> int_of_pos p
let int_of_z = function Z0 -> 0 | Zpos p -> int_of_pos p | Zneg p -> - (int_of_pos p)
let rec pos_of_int i =
  if i = 1 then XH
  else if i land 1 = 0 then XO (pos_of_int (i lsr 1))
  else XI (pos_of_int (i lsr 1))
let n_of_int i = if i = 0 then N0 else Npos (pos_of_int i)

(* arbitrary-size N from / to hex digits (bit by bit, no machine arithmetic) *)
let shift_in acc bit = match acc, bit with
  | N0, false -> N0 | N0, true -> Npos XH
  | Npos p, false -> Npos (XO p) | Npos p, true -> Npos (XI p)
let n_of_hex s =
  let acc = ref N0 in
  String.iter (fun ch ->
      let d = int_of_string ("0x" ^ String.make 1 ch) in
      List.iter (fun k -> acc := shift_in !acc ((d lsr k) land 1 = 1)) [3; 2; 1; 0]) s;
  !acc
let rec bits_of_pos = function
  | XH -> [1] | XO p -> 0 :: bits_of_pos p | XI p -> 1 :: bits_of_pos p
let hex_of_n width n =
  let bits = Array.make (max width 1 * 4 + 68) 0 in
  let l = match n with N0 -> [] | Npos p -> bits_of_pos p in
  List.iteri (fun i b -> if i < Array.length bits then bits.(i) <- b) l;
  let nd = max width ((List.length l + 3) / 4) in
  String.init nd (fun i ->
      let k = (nd - 1 - i) * 4 in
      "0123456789abcdef".[bits.(k) + 2 * bits.(k + 1) + 4 * bits.(k + 2) + 8 * bits.(k + 3)])

let bytes_of_hex s =
  if s = "-" then [] else
  List.init (String.length s / 2) (fun i -> n_of_int (int_of_string ("0x" ^ String.sub s (2 * i) 2)))
let hex_of_bytes l =
  if l = [] then "-" else
  String.concat "" (List.map (fun b -> Printf.sprintf "%02x" (int_of_n b land 255)) l)

let err_name = function
  | EInvalidArgument -> "invalid_argument" | ERuntime -> "runtime_error"
  | EOutOfRange -> "out_of_range" | ERange -> "range_error"
  | EOverflow -> "overflow_error" | EUnderflow -> "underflow_error"
  | ELogic -> "logic_error" | EBadCast -> "bad_cast" | EArgument -> "argument_error"
  | EOther -> "other"
let fault_name = function
  | OOBRead -> "oob_read" | OOBWrite -> "oob_write" | Starved -> "starved"
  | BadFree -> "bad_free" | NullDeref -> "null" | Fuel -> "fuel" | Wrap -> "wrap"

let show f = function
  | Ok a -> f a
  | Err e -> "E:" ^ err_name e
  | Fault x -> "F:" ^ fault_name x

let () =
  let ic = if Array.length Sys.argv > 1 then open_in Sys.argv.(1) else stdin in
  try
    while true do
      let line = input_line ic in
      match String.split_on_char ' ' (String.trim line) with
      | [id; "a"; bits; sg; pat; sep; psize; gsize; fill] ->
          let ibits = int_of_string bits in
          let nbits = n_of_int ibits in
          let sg = sg = "s" in
          let pat = n_of_hex pat in
          let sep = n_of_int (int_of_string ("0x" ^ sep)) in
          let fill = n_of_int (int_of_string ("0x" ^ fill)) in
          let block k = List.init (int_of_string k) (fun _ -> fill) in
          let str = int2string nbits sg pat in
          let pbuf = int2string_buf nbits sg (block psize) pat in
          let gstr = grouped_int2string nbits sg pat sep in
          let gbuf = grouped_int2string_buf nbits sg (block gsize) pat sep in
          let rt = match str with
            | Ok s -> show (hex_of_n (ibits / 4)) (string_to nbits sg s)
            | _ -> "-" in
          let pb (r, b) = Printf.sprintf "%d:%s" (int_of_z r) (hex_of_bytes b) in
          let len = str_length (conv_of nbits)
              (if sg then to_uint nbits (let z = to_Z nbits true pat in
                                         match z with Zneg p -> Zpos p | _ -> z) else pat) in
          Printf.printf "%s str=%s buf=%s gstr=%s gbuf=%s rt=%s ## len=%d\n" id
            (show hex_of_bytes str) (show pb pbuf) (show hex_of_bytes gstr) (show pb gbuf) rt
            (int_of_n len)
      | [id; "p"; bits; sg; text] ->
          let ibits = int_of_string bits in
          let r = string_to (n_of_int ibits) (sg = "s") (bytes_of_hex text) in
          Printf.printf "%s %s ##\n" id (show (fun v -> "V:" ^ hex_of_n (ibits / 4) v) r)
      | _ -> ()
    done
  with End_of_file -> ()
