(* Driver for the extracted FixedString model (C10 and C11; ocaml/c11_driver.ml is
   this file with the module name changed).  Reads the case file of
   harness/c10_harness.cpp, prints one result line per case in the same format.
   I/O only: every decision about the string is taken by the extracted Coq
   functions (step, pre_A, std_step, cut, abs).  Two fields are NOT computed but
   printed as the property demands them, so that an implementation that violates
   the property disagrees with this output even where the model mirrors it:
   the well-formedness verdict ("ok") and, in mode D, the verdict "eq"
   (FixedString result = std::string result cut at L). *)
open C10_model

let rec pos_of_int i =
  if i = 1 then XH
  else if i land 1 = 0 then XO (pos_of_int (i lsr 1))
  else XI (pos_of_int (i lsr 1))
let n_of_int i = if i = 0 then N0 else Npos (pos_of_int i)

(* decimal string (up to 2^64-1 and beyond) -> N, by repeated halving of the digit string *)
let n_of_string s =
  if s = "n" then nPOS
  else if String.length s <= 17 then n_of_int (int_of_string s)
  else begin
    let digits = ref (List.init (String.length s) (fun i -> Char.code s.[i] - 48)) in
    let bits = ref [] in
    while List.exists (fun d -> d <> 0) !digits do
      let rem = ref 0 in
      digits := List.map (fun d -> let v = !rem * 10 + d in rem := v land 1; v lsr 1) !digits;
      bits := !rem :: !bits
    done;
    (* bits: most significant first *)
    List.fold_left (fun acc b -> N.add (N.mul acc (n_of_int 2)) (n_of_int b)) N0 !bits
  end

let rec int_of_pos = function
  | XH -> 1 | XO p -> 2 * int_of_pos p | XI p -> 2 * int_of_pos p + 1
let int_of_n = function N0 -> 0 | Npos p -> int_of_pos p
let size_str v = if N.eqb v nPOS then "npos" else string_of_int (int_of_n v)

let bytes_of_hex s =
  if s = "-" then [] else
  let n = String.length s / 2 in
  List.init n (fun i -> n_of_int (int_of_string ("0x" ^ String.sub s (2 * i) 2)))
let hex_of_bytes l =
  if l = [] then "-" else
  String.concat "" (List.map (fun b -> Printf.sprintf "%02x" (int_of_n b land 255)) l)
(* a C string argument ends at its first NUL (the harness copies it with strlen) *)
let cstr_of_hex s = let l = bytes_of_hex s in take (cstrlen l) l

let err_name = function
  | EInvalidArgument -> "invalid_argument" | ERuntime -> "runtime_error"
  | EOutOfRange -> "out_of_range" | ERange -> "range_error"
  | EOverflow -> "overflow_error" | EUnderflow -> "underflow_error"
  | ELogic -> "logic_error" | EBadCast -> "bad_cast" | EArgument -> "argument_error"
  | EOther -> "other"
let fault_name = function
  | OOBRead -> "oob_read" | OOBWrite -> "oob_write" | Starved -> "starved"
  | BadFree -> "bad_free" | NullDeref -> "null" | Fuel -> "fuel" | Wrap -> "wrap"

exception Bad_op of string

let family_of = function
  | "find" -> Find | "rfind" -> RFind | "ffo" -> FFO | "ffno" -> FFNO
  | "flo" -> FLO | "flno" -> FLNO | s -> raise (Bad_op s)

let parse_op tok =
  let a = Array.of_list (String.split_on_char ':' tok) in
  let nm = a.(0) in
  let num i = n_of_string a.(i) in
  let chr i = n_of_int (int_of_string ("0x" ^ a.(i))) in
  let str i = bytes_of_hex a.(i) in
  let cs i = cstr_of_hex a.(i) in
  match nm with
  | "asg_c" -> OAsgC (cs 1) | "asg_s" -> OAsgS (str 1) | "asg_fs" -> OAsgFs
  | "ctor_c" -> OCtorC (cs 1) | "ctor_s" -> OCtorS (str 1) | "ctor_mv" -> OCtorMv | "ctor_cp" -> OCtorCp
  | "ctor_fs" -> OCtorFs
  | "ins_nc" -> OInsNC (num 1, num 2, chr 3)
  | "ins_pc" -> OInsPC (num 1, cs 2, num 3)
  | "ins_c" -> OInsC (num 1, cs 2)
  | "ins_s" -> OInsS (num 1, str 2)
  | "ins_ss" -> OInsSS (num 1, str 2, num 3, num 4)
  | "ins_fs" -> OInsFs (num 1)
  | "ins_fss" -> OInsFss (num 1, num 2, num 3)
  | "ins_it" -> OInsIt (num 1, chr 2)
  | "ins_itn" -> OInsItN (num 1, num 2, chr 3)
  | "erase" -> OErase (num 1, num 2)
  | "erase_it" -> OEraseIt (num 1)
  | "erase_itr" -> OEraseItr (num 1, num 2)
  | "push" -> OPush (chr 1) | "pop" -> OPop
  | "app_nc" -> OAppNC (num 1, chr 2) | "pe_ch" -> OPeCh (chr 1)
  | "app_s" -> OAppS (str 1) | "app_fs" -> OAppFs
  | "app_ss" -> OAppSS (str 1, num 2, num 3)
  | "app_fss" -> OAppFss (num 1, num 2)
  | "app_pc" -> OAppPC (cs 1, num 2) | "app_c" -> OAppC (cs 1)
  | "app_it" -> OAppIt (num 1, num 2)
  | "sprintf" -> OSprintf (str 1)
  | "sprintf_lc" -> OSprintfFail (false, str 1)
  | "sprintf_wide" -> OSprintfFail (true, str 1)
  | "rep_fs" -> ORepFs (num 1, num 2)
  | "rep_s" -> ORepS (num 1, num 2, str 3)
  | "rep_fss" -> ORepFss (num 1, num 2, num 3, num 4)
  | "rep_ss" -> ORepSS (num 1, num 2, str 3, num 4, num 5)
  | "rep_c" -> ORepC (num 1, num 2, cs 3)
  | "rep_pc" -> ORepPC (num 1, num 2, cs 3, num 4)
  | "rep_nc" -> ORepNC (num 1, num 2, num 3, chr 4)
  | "swap" -> OSwap | "clear" -> OClear
  | "cmp_fs" -> OCmpFs | "cmp_s" -> OCmpS (str 1) | "cmp_c" -> OCmpC (cs 1)
  | "cmpp_fs" -> OCmppFs (num 1, num 2)
  | "cmpp_s" -> OCmppS (num 1, num 2, str 3)
  | "cmpp_c" -> OCmppC (num 1, num 2, cs 3)
  | "cmppp_fs" -> OCmpppFs (num 1, num 2, num 3, num 4)
  | "cmppp_s" -> OCmpppS (num 1, num 2, str 3, num 4, num 5)
  | "cmppp_c" -> OCmpppC (num 1, num 2, cs 3, num 4)
  | "sw_fs" -> OSw NFs | "sw_s" -> OSw (NS (str 1)) | "sw_c" -> OSw (NC (cs 1)) | "sw_ch" -> OSw (NCh (chr 1))
  | "ew_fs" -> OEw NFs | "ew_s" -> OEw (NS (str 1)) | "ew_c" -> OEw (NC (cs 1)) | "ew_ch" -> OEw (NCh (chr 1))
  | "ct_fs" -> OCt NFs | "ct_s" -> OCt (NS (str 1)) | "ct_c" -> OCt (NC (cs 1)) | "ct_ch" -> OCt (NCh (chr 1))
  | "substr" -> OSubstr (num 1, num 2)
  | "copy" -> OCopy (num 1, num 2)
  | "at" -> OAt (num 1) | "front" -> OFront | "back" -> OBack | "len" -> OLen | "empty" -> OEmpty
  | "str" -> OStr | "eq" -> OEq | "ne" -> ONe
  | "itf" | "citf" -> OItF | "itr" | "citr" -> OItR
  | "it" | "rit" ->
      let k = match a.(2) with "inc" -> KInc | "dec" -> KDec | "add" -> KAdd | "sub" -> KSub | x -> raise (Bad_op x) in
      OIt (nm = "rit", num 1, k, num 3)
  | _ when String.length nm > 2 && nm.[0] = 'F' ->
      let us = String.index nm '_' in
      let fam = family_of (String.sub nm 1 (us - 1)) in
      let ov = String.sub nm (us + 1) (String.length nm - us - 1) in
      let pos = num (Array.length a - 1) in
      let k = match ov with
        | "fs" -> FFs | "s" -> FS (str 1) | "pc" -> FPC (cs 1, num 2) | "c" -> FC (cs 1)
        | "ch" -> FCh (chr 1) | s -> raise (Bad_op s) in
      OFind (fam, k, pos)
  | s -> raise (Bad_op s)

let cmp_str = function Lt -> "-1" | Eq -> "0" | Gt -> "1"
let bl b = if b then "t" else "f"

let ret_str modeD = function
  | RNone -> "_"
  | RCmp c -> cmp_str c
  | RBool b -> bl b
  | RSize v -> size_str v
  | RChar c -> Printf.sprintf "%02x" (int_of_n c land 255)
  | RStr l -> hex_of_bytes l
  | RIter v -> if modeD then "_" else if N.eqb v nPOS then "end" else string_of_int (int_of_n v)
  | RCopy (k, l) -> string_of_int (int_of_n k) ^ "," ^ hex_of_bytes l
  | RExc e -> "E:" ^ err_name e
  | RItD (v, c) ->
      if N.eqb v nPOS then "end"
      else string_of_int (int_of_n v) ^ "," ^
           (match c with Some b -> Printf.sprintf "%02x" (int_of_n b land 255) | None -> "E")

let state_str s =
  Printf.sprintf "%d;%d;%s;ok" (int_of_n s.len) (int_of_n (cstrlen s.buf)) (hex_of_bytes (abs s))

let run_case w =
  match w with
  | _ :: mode :: cap :: init :: oinit :: ops ->
      let modeD = mode = "D" in
      (* capacity token: "L" or "L/S" (capacity of the other object) *)
      let (cl, cs) = match String.split_on_char '/' cap with
        | [a; b] -> (a, b) | _ -> (cap, cap) in
      let l = n_of_string cl in
      let lo = n_of_string cs in
      let same = (cl = cs) in
      (match fs_init l (cstr_of_hex init), fs_init lo (cstr_of_hex oinit) with
       | Ok f0, Ok o0 ->
           let prop = Buffer.create 256 and intl = Buffer.create 256 in
           let sep () = if Buffer.length prop > 0 then (Buffer.add_char prop ' '; Buffer.add_char intl ' ') in
           let rec go f o = function
             | [] -> ()
             | tok :: rest ->
                 (match (try Some (parse_op tok) with _ -> None) with
                  | None -> sep (); Buffer.add_string prop ("unsupported-op:" ^ tok)
                  | Some x ->
                      sep ();
                      let spec = if modeD then std_step (abs f) (abs o) x else None in
                      if (not (pre_A f o x)) || (not (cap_ok same x)) || (modeD && spec = None) then begin
                        Buffer.add_string prop "ood"; Buffer.add_string intl "-"; go f o rest
                      end else
                        match step l f o x with
                        | Fault k -> Buffer.add_string prop ("F:" ^ fault_name k); Buffer.add_string intl "-"
                        | Err e -> Buffer.add_string prop ("T:" ^ err_name e); Buffer.add_string intl "-"
                        | Ok ((f', o'), r) ->
                            let swapped = (x = OSwap) in
                            (if modeD then begin
                               match spec with
                               | Some ((s', os'), rs) ->
                                   let rF = if swapped then "o=" ^ hex_of_bytes (abs o') else ret_str true r in
                                   let rS = if swapped then "o=" ^ hex_of_bytes (cut lo os') else ret_str true rs in
                                   Buffer.add_string prop
                                     (rF ^ ";" ^ hex_of_bytes (abs f') ^ "|" ^ rS ^ ";" ^ hex_of_bytes (cut l s') ^ "|eq;ok")
                               | None -> ()
                             end else begin
                               let rF = if swapped then "o=" ^ state_str o' else ret_str false r in
                               Buffer.add_string prop (rF ^ ";" ^ state_str f')
                             end);
                            Buffer.add_string intl (hex_of_bytes f'.buf ^ "/" ^ hex_of_bytes o'.buf);
                            go f' o' rest) in
           go f0 o0 ops;
           Buffer.contents prop ^ " ## " ^ Buffer.contents intl
       | _ -> "init-fault")
  | _ -> "bad-case"

let () =
  let ic = if Array.length Sys.argv > 1 then open_in Sys.argv.(1) else stdin in
  try
    while true do
      let line = input_line ic in
      let w = List.filter (fun s -> s <> "") (String.split_on_char ' ' (String.trim line)) in
      match w with
      | id :: _ -> Printf.printf "%s %s\n" id (run_case w)
      | [] -> ()
    done
  with End_of_file -> ()
