(* Driver for the extracted C18 model: one case per line (format: see
   harness/c18_harness.cpp), prints one result line per case in the format of
   the harness.  I/O only - every decision is taken by the extracted Coq
   functions (eval_case_txt, check_texts, user_arg, digest, unlines). *)
open C18_model

let rec nat_of_int i = if i <= 0 then O else S (nat_of_int (i - 1))
let rec pos_of_int i =
  if i = 1 then XH
  else if i land 1 = 0 then XO (pos_of_int (i lsr 1))
  else XI (pos_of_int (i lsr 1))
let n_of_int i = if i = 0 then N0 else Npos (pos_of_int i)
let rec int_of_pos = function
  | XH -> 1 | XO p -> 2 * int_of_pos p | XI p -> 2 * int_of_pos p + 1
let int_of_n = function N0 -> 0 | Npos p -> int_of_pos p

let bytes_of_hex s =
  if s = "-" || s = "" then [] else
  let n = String.length s / 2 in
  List.init n (fun i -> n_of_int (int_of_string ("0x" ^ String.sub s (2 * i) 2)))
let bytes_of_string s = List.init (String.length s) (fun i -> n_of_int (Char.code s.[i]))
let hex_of_bytes l =
  if l = [] then "-" else
  String.concat "" (List.map (fun b -> Printf.sprintf "%02x" (int_of_n b)) l)

let err_name = function
  | EInvalidArgument -> "invalid_argument" | ERuntime -> "runtime_error"
  | EOutOfRange -> "out_of_range" | ERange -> "range_error"
  | EOverflow -> "overflow_error" | EUnderflow -> "underflow_error"
  | ELogic -> "logic_error" | EBadCast -> "bad_cast" | EArgument -> "argument_error"
  | EOther -> "other"
let fault_name = function
  | OOBRead -> "oob_read" | OOBWrite -> "oob_write" | Starved -> "starved"
  | BadFree -> "bad_free" | NullDeref -> "null" | Fuel -> "fuel" | Wrap -> "wrap"

let split_on c s = if s = "-" || s = "" then [] else String.split_on_char c s
let starts p s = String.length s >= String.length p && String.sub s 0 (String.length p) = p
let after p s = String.sub s (String.length p) (String.length s - String.length p)

let show_digest items =
  if items = [] then "-" else
  String.concat ";" (List.map (function
      | DCap l -> "C" ^ hex_of_bytes l
      | DEnt (k, ws) -> "E" ^ hex_of_bytes k ^ ":" ^ String.concat "," (List.map hex_of_bytes ws)) items)

exception Setup of string

let parse_arg tok =
  match String.split_on_char ':' tok with
  | [_; keyspec; kind; iv; letters; repl; unit_; chk; con; desc] ->
      let k = match kind with
        | "i" -> KInt | "s" -> KStr | "b" -> KBool | "l" -> KLevel | "o" -> KOptInt | _ -> KVec in
      let has c = String.contains letters c in
      let pd = if has 'p' && has 'n' then
                 (* the later setter wins *)
                 Some (String.rindex letters 'p' > String.rindex letters 'n')
               else if has 'p' then Some true else if has 'n' then Some false else None in
      let iv = bytes_of_hex iv in
      let iv = if iv = [] && (kind = "i" || kind = "l") then bytes_of_string "0" else iv in
      (match user_arg (bytes_of_string keyspec) k iv (has 'm') (has 'h') (has 'd')
               (bytes_of_hex repl) pd (bytes_of_hex unit_)
               (List.map bytes_of_hex (split_on '~' chk)) (List.map bytes_of_hex (split_on '~' con))
               (bytes_of_hex desc) with
       | Ok a -> a
       | Err e -> raise (Setup (err_name e))
       | Fault f -> raise (Setup (fault_name f)))
  | _ -> raise (Setup "invalid_argument")

let is_sub c = String.length c > 1 && c.[0] = 's' && c.[1] >= '0' && c.[1] <= '9'

let parse_cmd c =
  if is_sub c then CmdSubHelp (nat_of_int (int_of_string (after "s" c))) else
  match c with
  | "ph" -> CmdPrintHidden | "pd" -> CmdPrintDeprecated
  | "hs" -> CmdHelpShort | "hl" -> CmdHelpLong
  | "h" | "H" -> CmdHelp
  | _ -> CmdHelpArg (bytes_of_hex (after "ha=" c))

let () =
  let ic = if Array.length Sys.argv > 1 then open_in Sys.argv.(1) else stdin in
  try
    while true do
      let line = input_line ic in
      match String.split_on_char ' ' (String.trim line) with
      | id :: toks when id <> "" ->
          let flags = ref 0 and width = ref 80 and cmds = ref [] and args = ref [] and again = ref 0 and sets = ref [] in
          let t1 = ref None and t2 = ref None in
          (* sub-groups: (keyspec, flags, desc, arguments in reverse order), latest first *)
          let groups = ref [] and parents = ref [] and rawcmds = ref [] and mainraw = ref [] in
          let text spec =
            let pos = match spec.[0] with 'b' -> UBefore | 'a' -> UAfter | _ -> UUnused in
            Some (pos, bytes_of_hex (String.sub spec 2 (String.length spec - 2))) in
          (try
             List.iter (fun t ->
                 if starts "f=" t then flags := int_of_string (after "f=" t)
                 else if starts "w=" t then width := int_of_string (after "w=" t)
                 else if starts "c=" t then begin
                   (* set=<idx>:<value hex> : the argument <idx> of the main handler is given that value on the command
                      line before the other commands: the variable then holds it, which is what the usage shows as
                      "default value" - the same as an argument defined with this initial value *)
                   let all = split_on ',' (after "c=" t) in
                   sets := List.filter_map (fun c -> if starts "set=" c then
                                               (match String.split_on_char ':' (after "set=" c) with
                                                | [i; v] -> Some (int_of_string i, v) | _ -> None) else None) all;
                   rawcmds := List.filter (fun c -> not (starts "set=" c)) all;
                   cmds := List.map parse_cmd !rawcmds
                 end
                 else if starts "again=" t then again := int_of_string (after "again=" t)
                 else if starts "a:" t then
                   (match !groups with
                    | [] -> mainraw := t :: !mainraw
                    | (k, fl, d, l) :: r -> groups := (k, fl, d, parse_arg t :: l) :: r)
                 else if starts "g:" t then
                   (match String.split_on_char ':' t with
                    | [_; k; fl; d] -> groups := (k, int_of_string fl, bytes_of_hex d, []) :: !groups; parents := (-1) :: !parents
                    | [_; k; fl; d; p] ->
                        let p = int_of_string p in
                        if p >= List.length !groups then raise (Setup "invalid_argument");
                        groups := (k, int_of_string fl, bytes_of_hex d, []) :: !groups; parents := p :: !parents
                    | _ -> raise (Setup "invalid_argument"))
                 else if starts "t1=" t then t1 := text (after "t1=" t)
                 else if starts "t2=" t then t2 := text (after "t2=" t)) toks;
             (* the arguments of the main handler, with the values given by "set" *)
             args := List.rev (List.mapi (fun i t ->
                 match List.assoc_opt i !sets with
                 | Some v ->
                     (match String.split_on_char ':' t with
                      | [a; k; kind; _; l; r; u; c; cn; d] -> parse_arg (String.concat ":" [a; k; kind; v; l; r; u; c; cn; d])
                      | _ -> parse_arg t)
                 | None -> parse_arg t) (List.rev !mainraw));
             (match check_texts !t1 !t2 with
              | Ok _ -> ()
              | Err e -> raise (Setup (err_name e))
              | Fault f -> raise (Setup (fault_name f)));
             let _ = eval_case in
             let sgs = List.rev_map (fun (k, fl, d, l) ->
                 match parse_key (bytes_of_string k) with
                 | Ok key -> { sg_key = key; sg_desc = d; sg_flags = n_of_int fl; sg_user = List.rev l }
                 | Err e -> raise (Setup (err_name e))
                 | Fault f -> raise (Setup (fault_name f))) !groups in
             (* a help request with a path through sub-groups (any depth): Text/UsagePath.v *)
             let nested = List.exists (fun p -> p >= 0) !parents in
             let path_query = match !rawcmds with
               | [c] when starts "ha=" c && List.exists (fun b -> int_of_n b = 47) (bytes_of_hex (after "ha=" c)) -> Some (bytes_of_hex (after "ha=" c))
               | _ -> None in
             if nested && path_query = None then raise (Setup "unsupported");
             let r =
               if path_query <> None then begin
                 if !again > 0 then raise (Setup "unsupported");
                 let pgs = List.map2 (fun (k, fl, d, l) p ->
                     match parse_key (bytes_of_string k) with
                     | Ok key -> { pg_key = key; pg_desc = d; pg_flags = n_of_int fl; pg_user = List.rev l;
                                   pg_parent = (if p < 0 then None else Some (nat_of_int p)) }
                     | Err e -> raise (Setup (err_name e))
                     | Fault f -> raise (Setup (fault_name f))) (List.rev !groups) (List.rev !parents) in
                 match path_query with
                 | Some q -> eval_case_path !t1 !t2 pgs (n_of_int !flags) (List.rev !args) q
                 | None -> assert false
               end else
               if sgs = [] && !again > 0 then
                 eval_case_again !t1 !t2 (n_of_int !flags) (nat_of_int !width) (List.rev !args) !cmds (nat_of_int !again)
               else if !again > 0 then raise (Setup "unsupported")
               else if sgs = [] then
                 eval_case_txt !t1 !t2 (n_of_int !flags) (nat_of_int !width) (List.rev !args) !cmds
               else
                 eval_case_sg !t1 !t2 sgs (n_of_int !flags) (nat_of_int !width) (List.rev !args) !cmds in
             (match r with
              | Ok s ->
                  let o = unlines s.hout and e = unlines s.herr in
                  Printf.printf "%s ok D=%s E=%s ## out=%s err=%s\n" id
                    (show_digest (digest o)) (show_digest (digest e)) (hex_of_bytes o) (hex_of_bytes e)
              | Err e -> Printf.printf "%s err:%s ##\n" id (err_name e)
              | Fault f -> Printf.printf "%s fault:%s ##\n" id (fault_name f))
           with Setup e ->
             if e = "unsupported" then Printf.printf "%s unsupported ##\n" id
             else Printf.printf "%s setup:%s ##\n" id e)
      | _ -> ()
    done
  with End_of_file -> ()
