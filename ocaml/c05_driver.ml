(* Driver for the extracted C05 model (keys + table). Reads the shared
   argument-handler case format (see harness/args_harness.cpp); only flag
   arguments (bool slots) and a single command-line word are interpreted. *)
open C05_model

let rec pos_of_int i =
  if i = 1 then XH else if i land 1 = 0 then XO (pos_of_int (i lsr 1)) else XI (pos_of_int (i lsr 1))
let n_of_int i = if i = 0 then N0 else Npos (pos_of_int i)
let str_of_string s = List.init (String.length s) (fun i -> n_of_int (Char.code s.[i]))
let unhex s =
  if s = "-" then "" else String.init (String.length s / 2) (fun i -> Char.chr (int_of_string ("0x" ^ String.sub s (2 * i) 2)))

let starts p s = String.length s >= String.length p && String.sub s 0 (String.length p) = p
let after p s = String.sub s (String.length p) (String.length s - String.length p)

let () =
  let ic = if Array.length Sys.argv > 1 then open_in Sys.argv.(1) else stdin in
  try
    while true do
      let line = input_line ic in
      match String.split_on_char ' ' (String.trim line) with
      | id :: toks ->
          let flags = ref 0 and args = ref [] and ops = ref [] and argv = ref [] and pinned = ref false and tolerated = ref [] and unsupported = ref false in
          List.iter (fun t ->
              if starts "H:f=" t then flags := int_of_string (after "H:f=" t)
              else if starts "arg:" t then begin
                match String.split_on_char ':' t with
                | _ :: spec :: slot :: rest ->
                    let opts = String.split_on_char '/' (String.concat ":" rest) in
                    let init = List.fold_left (fun acc o -> if starts "init=" o then after "init=" o = "1" else acc)
                        false opts in
                    if List.mem "try" opts then tolerated := slot :: !tolerated;
                    args := (spec, slot, init) :: !args;
                    ops := `Def (spec, slot) :: !ops
                | _ -> () end
              else if starts "probe:" t then ops := `Probe (unhex (after "probe:" t)) :: !ops
              else if starts "argv:" t then
                argv := List.map unhex (List.filter (fun x -> x <> "-") (String.split_on_char ',' (after "argv:" t)))
              else if starts "S:" t || starts "late:" t then unsupported := true      (* sub-group arguments: outside the model *)
              else if t = "model:pinned" then pinned := true) toks;
          let args = List.rev !args in
          let abbr = !flags land 0x80 = 0 in
          (* definitions in order *)
          let rec build t = function
            | [] -> Some t
            | (spec, slot, _) :: r ->
                (* a refused definition marked "try" leaves the table as it was *)
                (match parse_key (str_of_string spec) with
                 | Ok k -> (match add_argument t k slot with
                     | Ok t' -> build t' r
                     | _ -> if List.mem slot !tolerated then build t r else None)
                 | _ -> if List.mem slot !tolerated then build t r else None) in
          let slots = List.sort compare (List.map (fun (_, s, i) -> (s, i)) args) in
          let show hit = String.concat " " (List.map (fun (s, i) ->
              Printf.sprintf "%s=%d" s (if Some s = hit then (if i then 0 else 1) else (if i then 1 else 0))) slots) in
          let key_of_word w =
            if String.length w >= 2 && w.[0] = '-' then
              (if w.[1] = '-' then parse_key (str_of_string (after "--" w))
               else if String.length w = 2 then Ok (key_of_char (n_of_int (Char.code w.[1])))
               else Err EOther)
            else Err EOther in
          (* look-ups between the definitions: the staged model run_ops (ArgH/TableOps.v) *)
          let has_probe = List.exists (function `Probe _ -> true | _ -> false) !ops in
          let staged =
            if not has_probe then Some ""
            else begin
              let bad = ref false in
              let tops = List.filter_map (function
                  | `Def (spec, slot) ->
                      (match parse_key (str_of_string spec) with
                       | Ok k -> Some (TDef (k, slot, List.mem slot !tolerated))
                       | _ -> if List.mem slot !tolerated then None else (bad := true; None))
                  | `Probe w ->
                      (match key_of_word w with Ok k -> Some (TProbe k) | _ -> bad := true; None)) (List.rev !ops) in
              if !bad then None else
              match run_ops abbr [] tops with
              | None -> None
              | Some (ps, _) ->
                  Some (" probes=" ^ String.concat "," (List.map (function
                      | Ok (Some slot) -> slot | Ok None -> "none" | _ -> "amb") ps))
            end in
          if !unsupported then Printf.printf "%s unsupported ##\n" id else
          (match build [] args, staged with
           | None, _ | _, None -> Printf.printf "%s setup ##\n" id
           | Some t, Some probes ->
               (match !argv with
                | [w] when String.length w >= 2 && w.[0] = '-' ->
                    let k = if w.[1] = '-' then parse_key (str_of_string (after "--" w))
                      else if String.length w = 2 then Ok (key_of_char (n_of_int (Char.code w.[1])))
                      else Err EOther in
                    (match k with
                     | Ok k ->
                         let r = if !pinned then find_arg_pinned abbr t k None else find_arg abbr t k in
                         (match r with
                          | Ok (Some slot) -> Printf.printf "%s ok %s%s ##\n" id (show (Some slot)) probes
                          | Ok None -> Printf.printf "%s err%s ## unknown\n" id probes
                          | _ -> Printf.printf "%s err%s ## ambiguous\n" id probes)
                     | _ -> Printf.printf "%s err%s ## key\n" id probes)
                | [] -> Printf.printf "%s ok %s%s ##\n" id (show None) probes
                | _ -> Printf.printf "%s unsupported ##\n" id))
      | [] -> ()
    done
  with End_of_file -> ()
