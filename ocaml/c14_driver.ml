(* Driver for the extracted C14 model: reads the case file, one case per line, and
   prints one result line per case in the format of harness/c14_harness.cpp.
   I/O only - every decision is taken by the extracted Coq functions. *)
open C14_model

let rec nat_of_int i = if i <= 0 then O else S (nat_of_int (i - 1))
let rec int_of_nat = function O -> 0 | S n -> 1 + int_of_nat n
let rec pos_of_int i =
  if i = 1 then XH
  else if i land 1 = 0 then XO (pos_of_int (i lsr 1))
  else XI (pos_of_int (i lsr 1))
let n_of_int i = if i = 0 then N0 else Npos (pos_of_int i)
let rec int_of_pos = function
  | XH -> 1 | XO p -> 2 * int_of_pos p | XI p -> 2 * int_of_pos p + 1
let int_of_n = function N0 -> 0 | Npos p -> int_of_pos p

let ascii_of_char c =
  let n = Char.code c in
  let b i = (n lsr i) land 1 = 1 in
  Ascii (b 0, b 1, b 2, b 3, b 4, b 5, b 6, b 7)
let char_of_ascii (Ascii (b0, b1, b2, b3, b4, b5, b6, b7)) =
  let v b i = if b then 1 lsl i else 0 in
  Char.chr (v b0 0 + v b1 1 + v b2 2 + v b3 3 + v b4 4 + v b5 5 + v b6 6 + v b7 7)
let cstring (s : Stdlib.String.t) : C14_model.string =
  let r = ref EmptyString in
  for i = String.length s - 1 downto 0 do r := String (ascii_of_char s.[i], !r) done;
  !r
let rec ostring = function
  | EmptyString -> ""
  | String (a, r) -> String.make 1 (char_of_ascii a) ^ ostring r

let unhex s =
  if s = "-" || s = "" then "" else
  String.init (String.length s / 2) (fun i -> Char.chr (int_of_string ("0x" ^ String.sub s (2 * i) 2)))

let err_name = function
  | EInvalidArgument -> "invalid_argument" | ERuntime -> "runtime_error"
  | EOutOfRange -> "out_of_range" | ERange -> "range_error"
  | EOverflow -> "overflow_error" | EUnderflow -> "underflow_error"
  | ELogic -> "logic_error" | EBadCast -> "bad_cast" | EArgument -> "argument_error"
  | EOther -> "other"
let fault_name = function
  | OOBRead -> "oob_read" | OOBWrite -> "oob_write" | Starved -> "starved"
  | BadFree -> "bad_free" | NullDeref -> "null" | Fuel -> "fuel" | Wrap -> "wrap"

let deliveries = function
  | Ok [] -> "-"
  | Ok l -> String.concat "+" (List.map (fun (a, b) -> ostring a ^ "/" ^ ostring b) l)
  | Err e -> "E:" ^ err_name e
  | Fault f -> "F:" ^ fault_name f
let discard = function
  | Ok true -> "d1" | Ok false -> "d0" | Err e -> "E:" ^ err_name e | Fault f -> "F:" ^ fault_name f

let split2 c s =
  match String.index_opt s c with
  | None -> (s, None)
  | Some i -> (String.sub s 0 i, Some (String.sub s (i + 1) (String.length s - i - 1)))
let digit s i = nat_of_int (Char.code s.[i] - 48)

(* the 49 sends and 7 pre-checks of a T / V operation, run-length encoded like the harness *)
let raw = Buffer.create 64
let table send disc =
  let b = Buffer.create 64 in
  Buffer.add_string b "t:";
  let last = ref "" and n = ref 0 in
  let delivered = Array.make 7 false in
  let flush () =
    if !n > 0 then begin
      Buffer.add_string b !last;
      if !n > 1 then Buffer.add_string b ("*" ^ string_of_int !n);
      Buffer.add_char b ','
    end in
  for l = 0 to 6 do
    for c = 0 to 6 do
      let s = deliveries (send (nat_of_int l, nat_of_int c)) in
      if s <> "-" && not (String.length s > 1 && s.[1] = ':') then delivered.(l) <- true;
      if s = !last then incr n else begin flush (); last := s; n := 1 end
    done
  done;
  flush ();
  Buffer.add_string b "q:";
  Buffer.add_string raw " q=";
  for l = 0 to 6 do
    let d = discard (disc (nat_of_int l)) in
    Buffer.add_string raw (match d with "d1" -> "1" | "d0" -> "0" | _ -> "E");
    Buffer.add_string b (match d with "d1" -> if delivered.(l) then "X" else "." | "d0" -> "." | _ -> "E")
  done;
  Buffer.contents b

let macro_table send =
  let b = Buffer.create 64 in
  Buffer.add_string b "m:";
  let last = ref "" and n = ref 0 in
  let flush () =
    if !n > 0 then begin
      Buffer.add_string b !last;
      if !n > 1 then Buffer.add_string b ("*" ^ string_of_int !n);
      Buffer.add_char b ','
    end in
  for l = 0 to 6 do
    for c = 0 to 6 do
      let s = deliveries (send (nat_of_int l, nat_of_int c)) in
      if s = !last then incr n else begin flush (); last := s; n := 1 end
    done
  done;
  flush ();
  Buffer.contents b

let policy_of = function "i" -> PIgnore | "e" -> PException | _ -> PReplace

let run_case ops =
  let w = ref (set_policy PIgnore init_world) in
  Buffer.clear raw;
  let out = ref [] in
  List.iter (fun o ->
    if o <> "" then begin
      let a = String.sub o 1 (String.length o - 1) in
      let do_step op =
        let (w', r) = step !w op in
        w := w';
        match r with
        | RId n -> "id" ^ string_of_int (int_of_n n)
        | ROk -> "ok" | RNoLog -> "nolog"
        | RErr e -> "E:" ^ err_name e | RFault f -> "F:" ^ fault_name f in
      let r = match o.[0] with
        | 'P' -> do_step (OPolicy (policy_of a))
        | 'L' -> do_step (ONewLog (cstring a))
        | 'D' ->
            let (l, d) = split2 '/' a in
            let d = cstring (match d with Some d -> d | None -> "") in
            if l <> "" && l.[0] = '#'
            then do_step (OAddDestId (n_of_int (int_of_string (Stdlib.String.sub l 1 (Stdlib.String.length l - 1))), d))
            else do_step (OAddDest (cstring l, d))
        | 'F' ->
            let (tgt, set) = split2 ':' a in
            let set = match set with Some s -> s | None -> "" in
            let s = match set.[0] with
              | 'c' -> SClasses (cstring (unhex (String.sub set 1 (String.length set - 1))))
              | 'M' -> SMax (digit set 1)
              | 'm' -> SMin (digit set 1)
              | _ -> SLevel (digit set 1) in
            (match split2 '/' tgt with
             | (l, d) when l <> "" && l.[0] = '#' ->
                 let ids = n_of_int (int_of_string (Stdlib.String.sub l 1 (Stdlib.String.length l - 1))) in
                 do_step (OSetId (ids, (match d with Some d -> Some (cstring d) | None -> None), s))
             | (l, None) -> do_step (OSet (TgLog (cstring l), s))
             | (l, Some d) -> do_step (OSet (TgDest (cstring l, cstring d), s)))
        | 'S' ->
            let (ids, m) = split2 ':' a in
            let m = match m with Some m -> m | None -> "00" in
            deliveries (log_ids !w.logs (n_of_int (int_of_string ids)) (digit m 0, digit m 1))
        | 'N' ->
            let (name, m) = split2 ':' a in
            let m = match m with Some m -> m | None -> "00" in
            deliveries (log_name !w.logs (cstring name) (digit m 0, digit m 1))
        | 'Q' ->
            let (ids, m) = split2 ':' a in
            let m = match m with Some m -> m | None -> "0" in
            discard (discard_id !w.logs (n_of_int (int_of_string ids)) (digit m 0))
        | 'R' ->
            let (name, m) = split2 ':' a in
            let m = match m with Some m -> m | None -> "0" in
            discard (discard_name !w.logs (cstring name) (digit m 0))
        | 'T' ->
            let ids = n_of_int (int_of_string a) in
            table (fun m -> log_ids !w.logs ids m) (fun l -> discard_id !w.logs ids l)
        | 'V' ->
            let name = cstring a in
            table (fun m -> log_name !w.logs name m) (fun l -> discard_name !w.logs name l)
        | 'M' -> let name = cstring a in macro_table (fun m -> macro_name !w.logs name m)
        | 'I' -> let ids = n_of_int (int_of_string a) in macro_table (fun m -> macro_ids !w.logs ids m)
        | _ -> "?" in
      let r = if r = "d0" || r = "d1" then begin
          Buffer.add_string raw (" q=" ^ String.sub r 1 1); "q" end else r in
      out := r :: !out
    end) ops;
  let intl =
    "pol=" ^ (match !w.pol with None -> "null" | Some PIgnore -> "i" | Some PException -> "e" | Some PReplace -> "r")
    ^ String.concat "" (List.map (fun ld ->
        let fs = ld.llog.lfil in
        let t = match fs.cached with
          | None -> "none"
          | Some i -> (match nth_error fs.fl i with
              | Some (FMax _) -> "max" | Some (FMin _) -> "min" | Some (FLevel _) -> "level"
              | _ -> "other") in
        " " ^ ostring ld.lname ^ "=" ^ t) !w.logs) in
  String.concat " " (List.rev !out) ^ " ## " ^ intl ^ Buffer.contents raw

let () =
  let ic = if Array.length Sys.argv > 1 then open_in Sys.argv.(1) else stdin in
  let start = if Array.length Sys.argv > 2 then Some Sys.argv.(2) else None in
  let started = ref (start = None) in
  try
    while true do
      let line = input_line ic in
      match String.split_on_char ' ' (String.trim line) with
      | id :: rest when id <> "" ->
          if not !started && Some id = start then started := true;
          if !started then begin
            let ops = match rest with [] -> [] | s :: _ -> if s = "-" then [] else String.split_on_char ';' s in
            Printf.printf "%s %s\n" id (run_case ops)
          end
      | _ -> ()
    done
  with End_of_file -> ()
