From Coq Require Import List NArith Lia Bool ZifyNat ZifyN ZifyBool.
Import ListNotations.
Local Open Scope N_scope.

Inductive dtree := Ret (n:N) | IfGe (c:N) (t e:dtree).
Fixpoint eval (t:dtree) (v:N) : N :=
  match t with Ret n => n | IfGe c a b => if c <=? v then eval a v else eval b v end.

(* spec: number of decimal digits; pow10 k for k in 1..20 *)
Definition ndig_ok (n lo hi:N) : bool :=   (* all v in [lo,hi) have n digits *)
  (1 <=? n) && ((if n =? 1 then 0 else 10^(n-1)) <=? lo) && (hi <=? 10^n).
Fixpoint tree_ok (t:dtree) (lo hi:N) : bool :=
  if hi <=? lo then true else
  match t with
  | Ret n => ndig_ok n lo hi
  | IfGe c a b => tree_ok a (N.max lo c) hi && tree_ok b lo (N.min hi c)
  end.
Definition has_digits (v n:N) : Prop := 1 <= n /\ (if n =? 1 then 0 else 10^(n-1)) <= v /\ v < 10^n.

Lemma tree_ok_sound t : forall lo hi v, tree_ok t lo hi = true -> lo <= v < hi -> has_digits v (eval t v).
Proof.
  induction t as [n|c a IHa b IHb]; intros lo hi v H Hv; cbn [tree_ok eval] in *.
  - destruct (hi <=? lo) eqn:E; [lia|]. unfold ndig_ok in H. unfold has_digits.
    apply andb_true_iff in H as [H H3]. apply andb_true_iff in H as [H1 H2].
    destruct (n =? 1); lia.
  - destruct (hi <=? lo) eqn:E; [lia|]. apply andb_true_iff in H as [H1 H2].
    destruct (c <=? v) eqn:Ec.
    + eapply IHa; [eassumption|lia].
    + eapply IHb; [eassumption|lia].
Qed.

(* the int32 tree as the translator would emit it *)
Definition tree32 : dtree :=
  IfGe 100000
    (IfGe 10000000 (IfGe 100000000 (IfGe 1000000000 (Ret 10) (Ret 9)) (Ret 8)) (IfGe 1000000 (Ret 7) (Ret 6)))
    (IfGe 100 (IfGe 1000 (IfGe 10000 (Ret 5) (Ret 4)) (Ret 3)) (IfGe 10 (Ret 2) (Ret 1))).
Theorem strlen_tree_correct_32 : forall v, v < 2^32 -> has_digits v (eval tree32 v).
Proof. intros v Hv. apply (tree_ok_sound tree32 0 (2^32)); [vm_compute; reflexivity | lia]. Qed.
Print Assumptions strlen_tree_correct_32.
(* a mutant: 1000000 -> 1000001 must fail the checker *)
Definition tree32_mut : dtree :=
  IfGe 100000
    (IfGe 10000000 (IfGe 100000000 (IfGe 1000000000 (Ret 10) (Ret 9)) (Ret 8)) (IfGe 1000001 (Ret 7) (Ret 6)))
    (IfGe 100 (IfGe 1000 (IfGe 10000 (Ret 5) (Ret 4)) (Ret 3)) (IfGe 10 (Ret 2) (Ret 1))).
Eval vm_compute in tree_ok tree32_mut 0 (2^32).
