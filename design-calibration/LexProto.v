From Coq Require Import List NArith ZArith Lia Bool ZifyNat ZifyN ZifyBool Arith.
Import ListNotations.
Local Open Scope N_scope.

Definition word := list N.
Definition DASH : N := 45.
Definition EQ : N := 61.

Inductive elem := EChar (c:N) | EStr (s:word) | EVal (v:word).
Inductive res (A:Type) := Ok (a:A) | Err (e:nat).
Arguments Ok {A}. Arguments Err {A}.

Record it := { rest : list word; cpos : nat; nextval : bool; dashed : bool }.

Fixpoint find_eq (w:word) : option nat :=
  match w with [] => None | c :: t => if c =? EQ then Some 0%nat else option_map S (find_eq t) end.

(* determineNextArg at position p of head word w *)
Definition determine (next_after_dd : it -> res (option (elem * it))) (w:word) (ws:list word) (p:nat) (d:bool)
  : res (option (elem * it)) :=
  if nth p w 0 =? DASH then
    if Nat.eqb (p+1) (length w) then next_after_dd {| rest := ws; cpos := 0; nextval := false; dashed := true |}
    else let name := skipn (p+1) w in
         match find_eq name with
         | None => Ok (Some (EStr name, {| rest := ws; cpos := 0; nextval := false; dashed := d |}))
         | Some e => Ok (Some (EStr (firstn e name), {| rest := w :: ws; cpos := p + e + 2; nextval := true; dashed := d |}))
         end
  else if Nat.eqb (length w) (p+1) then Ok (Some (EChar (nth p w 0), {| rest := ws; cpos := 0; nextval := false; dashed := d |}))
  else Ok (Some (EChar (nth p w 0), {| rest := w :: ws; cpos := p+1; nextval := false; dashed := d |})).

(* operator++ : structural on the list of remaining words (the recursion after "--") *)
Fixpoint next_words (ws0 : list word) (cp:nat) (nv d rem:bool) {struct ws0} : res (option (elem * it)) :=
  match ws0 with
  | [] => Ok None
  | w :: ws =>
    if nv || (rem && negb (Nat.eqb cp 0)) then
      Ok (Some (EVal (skipn cp w), {| rest := ws; cpos := 0; nextval := false; dashed := d |}))
    else
      let dd := fun s => next_words ws 0 false true false in
      if Nat.eqb cp 0 then
        if negb (nth 0 w 0 =? DASH) || d then Ok (Some (EVal w, {| rest := ws; cpos := 0; nextval := false; dashed := d |}))
        else if Nat.eqb (length w) 1 then Err 1%nat
        else determine dd w ws 1 d
      else determine dd w ws cp d
  end.
Definition next (rem:bool) (s:it) := next_words (rest s) (cpos s) (nextval s) (dashed s) rem.

(* configuration: short keys only; flags and required-int arguments *)
Inductive kind := KFlag | KInt.
Definition cfg := list (N * kind).
Fixpoint lookup (c:cfg) (k:N) : option kind :=
  match c with [] => None | (k',x) :: t => if k =? k' then Some x else lookup t k end.

Definition store := N -> option Z.
Definition upd (st:store) (k:N) (v:Z) : store := fun k' => if k' =? k then Some v else st k'.

Section S.
Variable parse_int : word -> option Z.
Variable dec : Z -> word.
Hypothesis parse_dec : forall z, parse_int (dec z) = Some z.
Hypothesis dec_nonempty_nodash : forall z, (0 <= z)%Z -> exists c t, dec z = c :: t /\ c <> DASH.

Fixpoint run (fuel:nat) (c:cfg) (s:it) (st:store) : res store :=
  match fuel with O => Err 99%nat | S f =>
  match next false s with
  | Err e => Err e
  | Ok None => Ok st
  | Ok (Some (EChar k, s1)) =>
      match lookup c k with
      | None => Err 2%nat
      | Some KFlag => run f c s1 (upd st k 1%Z)
      | Some KInt =>
          match next true s1 with
          | Ok (Some (EVal v, s2)) =>
              match parse_int v with Some z => run f c s2 (upd st k z) | None => Err 4%nat end
          | Err e => Err e
          | _ => Err 3%nat
          end
      end
  | Ok (Some (_, _)) => Err 5%nat
  end end.

(* abstract line and its spellings *)
Inductive use := UFlag (k:N) | UInt (k:N) (z:Z).
Definition apply_use (st:store) (u:use) : store :=
  match u with UFlag k => upd st k 1%Z | UInt k z => upd st k z end.
Definition intended (us:list use) (st:store) := fold_left apply_use us st.

Definition flags_ok (c:cfg) (fs:list N) := Forall (fun k => lookup c k = Some KFlag /\ k <> DASH) fs.

Inductive spell (c:cfg) : list use -> list word -> Prop :=
| sp_nil : spell c [] []
| sp_flags : forall fs us ws, fs <> [] -> flags_ok c fs -> spell c us ws ->
    spell c (map UFlag fs ++ us) ((DASH :: fs) :: ws)
| sp_glued : forall fs k z us ws, flags_ok c fs -> lookup c k = Some KInt -> k <> DASH -> dec z <> [] ->
    spell c us ws -> spell c (map UFlag fs ++ UInt k z :: us) ((DASH :: fs ++ k :: dec z) :: ws)
| sp_sep : forall fs k z us ws, flags_ok c fs -> lookup c k = Some KInt -> k <> DASH -> (0 <= z)%Z ->
    spell c us ws -> spell c (map UFlag fs ++ UInt k z :: us) ((DASH :: fs ++ [k]) :: dec z :: ws).

Fixpoint size (ws:list word) : nat := match ws with [] => 0 | w :: t => S (length w) + size t end%nat.

(* invariant lemma: inside a one-dash word at position p, the remaining characters are flags fs followed by tail *)
Lemma run_flags c : forall fs pre tl ws st fuel,
  flags_ok c fs -> tl <> [] ->
  (length fs + 0 < fuel)%nat ->
  let w := pre ++ fs ++ tl in
  pre <> [] ->
  run (fuel) c {| rest := w :: ws; cpos := length pre; nextval := false; dashed := false |} st
  = run (fuel - length fs) c {| rest := w :: ws; cpos := length pre + length fs; nextval := false; dashed := false |}
        (intended (map UFlag fs) st).
Proof.
  induction fs as [|k fs IH]; intros pre tl ws st fuel Hf Htl Hfu w Hpre.
  - cbn. rewrite Nat.sub_0_r, Nat.add_0_r. reflexivity.
  - inversion Hf as [|? ? [Hk Hnd] Hf']; subst.
    destruct fuel as [|fuel]; [cbn in Hfu; lia|].
    cbn [run]. unfold next. cbn [rest cpos nextval dashed next_words].
    cbn [orb andb].
    destruct pre as [|p0 pre']; [congruence|].
    replace (Nat.eqb (length (p0 :: pre')) 0) with false by (cbn; reflexivity).
    unfold determine.
    assert (Hn : nth (length (p0::pre')) w 0 = k).
    { unfold w. rewrite app_nth2 by lia. rewrite Nat.sub_diag. reflexivity. }
    rewrite Hn. destruct (k =? DASH) eqn:Ek; [apply N.eqb_eq in Ek; congruence|].
    assert (Hl : Nat.eqb (length w) (length (p0::pre') + 1) = false).
    { apply Nat.eqb_neq. unfold w. rewrite !app_length. cbn [length]. destruct tl; [congruence|cbn [length]; lia]. }
    rewrite Hl, Hk.
    specialize (IH ((p0::pre') ++ [k]) tl ws (upd st k 1%Z) fuel Hf' Htl).
    assert (Hw : ((p0 :: pre') ++ [k]) ++ fs ++ tl = w) by (unfold w; rewrite <- !app_assoc; reflexivity).
    rewrite Hw in IH. rewrite app_length in IH. cbn [length] in IH.
    replace (length (p0::pre') + 1)%nat with (S (length pre') + 1)%nat by reflexivity.
    cbn [length] in *.
    assert (H1 : (length fs + 0 < fuel)%nat) by lia.
    assert (H2 : (p0 :: pre') ++ [k] <> []) by discriminate.
    specialize (IH H1 H2). etransitivity; [exact IH|].
    replace (S fuel - S (length fs))%nat with (fuel - length fs)%nat by lia.
    replace (S (length pre') + S (length fs))%nat with (S (length pre') + 1 + length fs)%nat by lia.
    reflexivity.
Qed.

Lemma enter_word c w ws st fuel :
  (2 <= length w)%nat -> nth 0 w 0 = DASH ->
  run fuel c {| rest := w :: ws; cpos := 0; nextval := false; dashed := false |} st
  = run fuel c {| rest := w :: ws; cpos := 1; nextval := false; dashed := false |} st.
Proof.
  intros Hl H0. destruct fuel as [|fuel]; [reflexivity|].
  cbn [run]. unfold next. cbn [rest cpos nextval dashed next_words orb andb Nat.eqb negb].
  rewrite H0. rewrite N.eqb_refl. cbn [negb orb].
  replace (Nat.eqb (length w) 1) with false by (symmetry; apply Nat.eqb_neq; lia).
  reflexivity.
Qed.

(* last flag of a word: leaves the word *)
Lemma run_last_flag c pre k ws st fuel :
  lookup c k = Some KFlag -> k <> DASH -> pre <> [] ->
  run (S fuel) c {| rest := (pre ++ [k]) :: ws; cpos := length pre; nextval := false; dashed := false |} st
  = run fuel c {| rest := ws; cpos := 0; nextval := false; dashed := false |} (upd st k 1%Z).
Proof.
  intros Hk Hd Hp. cbn [run]. unfold next. cbn [rest cpos nextval dashed next_words orb andb].
  destruct pre as [|p0 pre']; [congruence|].
  replace (Nat.eqb (length (p0 :: pre')) 0) with false by reflexivity.
  unfold determine. rewrite app_nth2 by lia. rewrite Nat.sub_diag. cbn [nth].
  destruct (k =? DASH) eqn:E; [apply N.eqb_eq in E; congruence|].
  rewrite app_length. cbn [length]. rewrite Nat.eqb_refl. rewrite Hk. reflexivity.
Qed.

(* value-taking key with glued value *)
Lemma run_glued c pre k z ws st fuel :
  lookup c k = Some KInt -> k <> DASH -> pre <> [] -> dec z <> [] ->
  run (S fuel) c {| rest := (pre ++ k :: dec z) :: ws; cpos := length pre; nextval := false; dashed := false |} st
  = run fuel c {| rest := ws; cpos := 0; nextval := false; dashed := false |} (upd st k z).
Proof.
  intros Hk Hd Hp Hz. cbn [run]. unfold next at 1. cbn [rest cpos nextval dashed next_words orb andb].
  destruct pre as [|p0 pre']; [congruence|].
  replace (Nat.eqb (length (p0 :: pre')) 0) with false by reflexivity.
  unfold determine. rewrite app_nth2 by lia. rewrite Nat.sub_diag. cbn [nth].
  destruct (k =? DASH) eqn:E; [apply N.eqb_eq in E; congruence|].
  replace (Nat.eqb (length ((p0 :: pre') ++ k :: dec z)) (length (p0 :: pre') + 1)) with false.
  2:{ symmetry. apply Nat.eqb_neq. rewrite app_length. cbn [length]. destruct (dec z); [congruence|cbn [length]; lia]. }
  rewrite Hk. unfold next. cbn [rest cpos nextval dashed next_words orb andb].
  replace (Nat.eqb (length (p0 :: pre') + 1) 0) with false by (symmetry; apply Nat.eqb_neq; lia).
  cbn [negb].
  replace (skipn (length (p0 :: pre') + 1) ((p0 :: pre') ++ k :: dec z)) with (dec z).
  2:{ replace (length (p0::pre') + 1)%nat with (length ((p0::pre') ++ [k])) by (rewrite app_length; reflexivity).
      replace ((p0 :: pre') ++ k :: dec z) with (((p0 :: pre') ++ [k]) ++ dec z) by (rewrite <- app_assoc; reflexivity).
      rewrite skipn_app, Nat.sub_diag, skipn_all. reflexivity. }
  rewrite parse_dec. reflexivity.
Qed.

(* value-taking key as last character, value in the next word *)
Lemma run_sep c pre k z ws st fuel :
  lookup c k = Some KInt -> k <> DASH -> pre <> [] -> (0 <= z)%Z ->
  run (S fuel) c {| rest := (pre ++ [k]) :: dec z :: ws; cpos := length pre; nextval := false; dashed := false |} st
  = run fuel c {| rest := ws; cpos := 0; nextval := false; dashed := false |} (upd st k z).
Proof.
  intros Hk Hd Hp Hz. cbn [run]. unfold next at 1. cbn [rest cpos nextval dashed next_words orb andb].
  destruct pre as [|p0 pre']; [congruence|].
  replace (Nat.eqb (length (p0 :: pre')) 0) with false by reflexivity.
  unfold determine. rewrite app_nth2 by lia. rewrite Nat.sub_diag. cbn [nth].
  destruct (k =? DASH) eqn:E; [apply N.eqb_eq in E; congruence|].
  rewrite app_length. cbn [length]. rewrite Nat.eqb_refl. rewrite Hk.
  unfold next. cbn [rest cpos nextval dashed next_words orb andb Nat.eqb negb].
  destruct (dec_nonempty_nodash z Hz) as (c0 & t & Hdz & Hc0). rewrite Hdz. cbn [nth].
  destruct (c0 =? DASH) eqn:E0; [apply N.eqb_eq in E0; congruence|]. cbn [negb orb].
  rewrite <- Hdz, parse_dec. reflexivity.
Qed.

Theorem C01_proto c : forall us ws, spell c us ws ->
  forall st fuel, (size ws < fuel)%nat ->
  run fuel c {| rest := ws; cpos := 0; nextval := false; dashed := false |} st = Ok (intended us st).
Proof.
  induction 1 as [| fs us ws Hne Hfs Hsp IH | fs k z us ws Hfs Hk Hd Hz Hsp IH | fs k z us ws Hfs Hk Hd Hz Hsp IH];
    intros st fuel Hfu.
  - destruct fuel; [cbn in Hfu; lia|]. reflexivity.
  - (* flags only: split off the last flag *)
    destruct (exists_last Hne) as (fs' & kl & ->).
    apply Forall_app in Hfs as [Hfs' Hl]. inversion Hl as [|? ? [Hkl Hdl] _]; subst.
    cbn [size length] in Hfu. rewrite app_length in Hfu. cbn [length] in Hfu.
    rewrite enter_word; [|cbn [length]; rewrite app_length; cbn; lia|reflexivity].
    change (DASH :: fs' ++ [kl]) with ([DASH] ++ fs' ++ [kl]).
    change 1%nat with (length [DASH]).
    rewrite (run_flags c fs' [DASH] [kl]); [|assumption|discriminate|lia|discriminate].
    replace ([DASH] ++ fs' ++ [kl]) with (([DASH] ++ fs') ++ [kl]) by (rewrite <- app_assoc; reflexivity).
    replace (length [DASH] + length fs')%nat with (length ([DASH] ++ fs')) by (rewrite app_length; reflexivity).
    destruct (fuel - length fs')%nat as [|f'] eqn:Ef; [lia|].
    rewrite run_last_flag; [|assumption|assumption|discriminate].
    rewrite IH by lia. unfold intended. rewrite map_app, <- app_assoc, !fold_left_app. reflexivity.
  - cbn [size length] in Hfu. rewrite !app_length in Hfu. cbn [length] in Hfu.
    rewrite enter_word; [|cbn [length]; rewrite app_length; cbn; lia|reflexivity].
    change (DASH :: fs ++ k :: dec z) with ([DASH] ++ fs ++ (k :: dec z)).
    change 1%nat with (length [DASH]).
    rewrite (run_flags c fs [DASH] (k :: dec z)); [|assumption|discriminate|lia|discriminate].
    replace ([DASH] ++ fs ++ k :: dec z) with (([DASH] ++ fs) ++ k :: dec z) by (rewrite <- app_assoc; reflexivity).
    replace (length [DASH] + length fs)%nat with (length ([DASH] ++ fs)) by (rewrite app_length; reflexivity).
    destruct (fuel - length fs)%nat as [|f'] eqn:Ef; [lia|].
    rewrite run_glued; [|assumption|assumption|discriminate|assumption].
    rewrite IH by lia. unfold intended. rewrite fold_left_app. reflexivity.
  - cbn [size length] in Hfu. rewrite !app_length in Hfu. cbn [length] in Hfu.
    rewrite enter_word; [|cbn [length]; rewrite app_length; cbn; lia|reflexivity].
    change (DASH :: fs ++ [k]) with ([DASH] ++ fs ++ [k]).
    change 1%nat with (length [DASH]).
    rewrite (run_flags c fs [DASH] [k]); [|assumption|discriminate|lia|discriminate].
    replace ([DASH] ++ fs ++ [k]) with (([DASH] ++ fs) ++ [k]) by (rewrite <- app_assoc; reflexivity).
    replace (length [DASH] + length fs)%nat with (length ([DASH] ++ fs)) by (rewrite app_length; reflexivity).
    destruct (fuel - length fs)%nat as [|f'] eqn:Ef; [lia|].
    rewrite run_sep; [|assumption|assumption|discriminate|assumption].
    rewrite IH by lia. unfold intended. rewrite fold_left_app. reflexivity.
Qed.
End S.
Print Assumptions C01_proto.
