From Coq Require Import List NArith ZArith Lia Bool ZifyNat ZifyN ZifyBool.
Import ListNotations.
Local Open Scope N_scope.

Inductive res (A:Type) := Ok (a:A) | Fault.
Arguments Ok {A}. Arguments Fault {A}.

Definition nlen {A} (l:list A) : N := N.of_nat (length l).
Definition take {A} (n:N) (l:list A) := firstn (N.to_nat n) l.
Definition drop {A} (n:N) (l:list A) := skipn (N.to_nat n) l.

(* memmove inside one buffer: copy n bytes from src to dst *)
Definition memmove_in (b:list N) (dst src n:N) : res (list N) :=
  if (src + n <=? nlen b) && (dst + n <=? nlen b)
  then Ok (take dst b ++ take n (drop src b) ++ drop (dst+n) b)
  else Fault.
Definition wr (b:list N) (i v:N) : res (list N) :=
  if i <? nlen b then Ok (take i b ++ v :: drop (i+1) b) else Fault.

Record fs := { buf : list N; len : N }.
Definition M64 := 2^64.
Definition sub64 a b := (a + M64 - b) mod M64.

Section L.
Variable L : N.
Definition Inv (s:fs) := nlen (buf s) = L + 1 /\ len s <= L /\ nth (N.to_nat (len s)) (buf s) 1 = 0.
Definition abs (s:fs) := take (len s) (buf s).

(* erase(index,count) mirroring the source *)
Definition erase (s:fs) (index count:N) : res fs :=
  if len s <? index then Ok s else
  if sub64 (len s) index <=? count then
    match wr (buf s) index 0 with Ok b => Ok {| buf := b; len := index |} | Fault => Fault end
  else
    match memmove_in (buf s) index (index+count) (len s - index - count) with
    | Ok b => match wr b (len s - count) 0 with Ok b' => Ok {| buf := b'; len := len s - count |} | Fault => Fault end
    | Fault => Fault end.

Definition std_erase (x:list N) (index count:N) := take index x ++ drop (index + N.min count (nlen x - index)) x.

Lemma nlen_take {A} n (l:list A) : n <= nlen l -> nlen (take n l) = n.
Proof. unfold nlen, take. intros. rewrite firstn_length. lia. Qed.
Lemma nlen_drop {A} n (l:list A) : nlen (drop n l) = nlen l - n.
Proof. unfold nlen, drop. rewrite skipn_length. lia. Qed.
Lemma nlen_app {A} (a b:list A) : nlen (a++b) = nlen a + nlen b.
Proof. unfold nlen. rewrite app_length. lia. Qed.

Lemma wr_len b i v b' : wr b i v = Ok b' -> nlen b' = nlen b.
Proof. unfold wr. destruct (i <? nlen b) eqn:E; [|discriminate]. intros H; inversion H; subst.
  rewrite nlen_app. cbn [nlen length]. rewrite nlen_take by lia. 
  change (nlen (v :: drop (i+1) b)) with (N.of_nat (S (length (drop (i+1) b)))).
  fold (nlen (drop (i+1) b)). pose proof (nlen_drop (i+1) b). unfold nlen in *. lia. Qed.

Lemma nth_wr b i v b' d : wr b i v = Ok b' -> nth (N.to_nat i) b' d = v.
Proof. unfold wr. destruct (i <? nlen b) eqn:E; [|discriminate]. intros H; inversion H; subst.
  rewrite app_nth2; unfold take; rewrite firstn_length; unfold nlen in *.
  - replace (N.to_nat i - Nat.min (N.to_nat i) (length b))%nat with 0%nat by lia. reflexivity.
  - lia. Qed.

Theorem erase_safe s index count : Inv s -> index < M64 -> count < M64 -> L + 1 < M64 ->
  exists s', erase s index count = Ok s' /\ Inv s'.
Proof.
  intros (Hl & Hle & Hn) Hi Hc HL. unfold erase.
  destruct (len s <? index) eqn:E1. { eexists; split; [reflexivity|]. repeat split; assumption. }
  assert (index <= len s) by lia.
  assert (Hs : sub64 (len s) index = len s - index).
  { unfold sub64, M64 in *. replace (len s + 2^64 - index) with ((len s - index) + 1 * 2^64) by lia.
    rewrite N.mod_add by lia. apply N.mod_small. lia. }
  rewrite Hs. destruct (len s - index <=? count) eqn:E2.
  - destruct (wr (buf s) index 0) eqn:W.
    + eexists; split; [reflexivity|]. unfold Inv; cbn. repeat split.
      * erewrite wr_len by eassumption. assumption.
      * lia.
      * eapply nth_wr; eassumption.
    + unfold wr in W. destruct (index <? nlen (buf s)) eqn:E3; [discriminate|]. lia.
  - unfold memmove_in.
    destruct ((index + count + (len s - index - count) <=? nlen (buf s)) && (index + (len s - index - count) <=? nlen (buf s))) eqn:E3.
    2:{ apply andb_false_iff in E3. destruct E3 as [E3|E3]; lia. }
    set (b1 := take index (buf s) ++ _).
    assert (Hb1 : nlen b1 = L + 1).
    { unfold b1. rewrite !nlen_app, nlen_take, nlen_take, nlen_drop; rewrite ?nlen_drop; lia. }
    destruct (wr b1 (len s - count) 0) eqn:W.
    + eexists; split; [reflexivity|]. unfold Inv; cbn. repeat split.
      * erewrite wr_len by eassumption. assumption.
      * lia.
      * eapply nth_wr; eassumption.
    + unfold wr in W. destruct (len s - count <? nlen b1) eqn:E4; [discriminate|]. lia.
Qed.
End L.
Print Assumptions erase_safe.
