#!/usr/bin/env python3
"""apply fix patches (fixes/<name>.patch + .msg) to /repo as one commit each, record name -> hash in
fixes/APPLIED.json, and fill the commit field of known_findings.d entries that mention the patch"""
import json, subprocess, sys, glob, os
os.chdir('/verif')
applied_p = 'fixes/APPLIED.json'
applied = json.load(open(applied_p)) if os.path.exists(applied_p) else {}
names = sys.argv[1:]
for n in names:
    patch = f'/verif/fixes/{n}.patch'; msg = f'/verif/fixes/{n}.msg'
    if n in applied:
        print(n, 'already applied', applied[n]); continue
    assert open(msg).read().startswith('fix:'), msg
    subprocess.check_call(['git', '-C', '/repo', 'apply', '--check', patch])
    subprocess.check_call(['git', '-C', '/repo', 'apply', patch])
    subprocess.check_call(['git', '-C', '/repo', 'add', '-A', 'src'])
    subprocess.check_call(['git', '-C', '/repo', 'commit', '-q', '-F', msg])
    h = subprocess.check_output(['git', '-C', '/repo', 'rev-parse', '--short', 'HEAD'], text=True).strip()
    applied[n] = h
    print(n, h)
json.dump(applied, open(applied_p, 'w'), indent=1)
for f in glob.glob('known_findings.d/*.json'):
    k = json.load(open(f)); ch = False
    for e in k:
        for n, h in applied.items():
            if n in json.dumps(e) and not e.get('commit'):
                e['commit'] = h; ch = True
                if e.get('status') == 'fixed' and not e.get('text', '').startswith('fixed:'):
                    e['text'] = 'fixed: property=%s %s %s' % (e['property'], h, e['text'])
    if ch:
        json.dump(k, open(f, 'w'), indent=1)
