#!/usr/bin/env python3
"""regenerate the seed table and the harmless-change table inside DESIGN.md (between the HTML comment markers)"""
import subprocess
p = '/verif/DESIGN.md'
s = open(p).read()
for tag, tool in (('SEED-TABLE', 'seed_table.py'), ('HARMLESS-TABLE', 'harmless_table.py')):
    b, e = '<!-- %s-BEGIN -->' % tag, '<!-- %s-END -->' % tag
    i, j = s.index(b) + len(b), s.index(e)
    t = subprocess.check_output(['python3', '/verif/tools/' + tool], text=True)
    s = s[:i] + '\n' + t + s[j:]
open(p, 'w').write(s)
