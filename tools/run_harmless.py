#!/usr/bin/env python3
"""run the checks against harmless (semantics-preserving) changes made by independent sub-agents.
usage: run_harmless.py <out dir with <ID>/<n>/patch.diff meta.json> [--keep]
For each patch: scratch worktree of /repo HEAD + patch, VERIF_REPO=<worktree> ./check <ID> (quick tier); the result
(exit code, VIOLATION lines) is stored with the patch under /verif/harmless/<ID>-<n>/. An alarm here is a FALSE alarm
unless the patch turns out not to be harmless (then it is moved to the seeds by hand)."""
import json, os, re, shutil, subprocess, sys
src = sys.argv[1]
only = sys.argv[2:] if len(sys.argv) > 2 else None
def sh(cmd, **kw):
    p = subprocess.run(cmd, shell=True, stdout=subprocess.PIPE, stderr=subprocess.STDOUT, text=True, errors='replace', **kw)
    return p.returncode, p.stdout
rows = []
for pid in sorted(os.listdir(src)):
    if only and pid not in only:
        continue
    for n in sorted(os.listdir(os.path.join(src, pid))):
        d = os.path.join(src, pid, n)
        patch = os.path.join(d, 'patch.diff')
        if not os.path.exists(patch):
            continue
        name = f'{pid}-{n}'
        wt = f'/tmp/hl_{name}'
        sh(f'git -C /repo worktree remove --force {wt}'); shutil.rmtree(wt, ignore_errors=True)
        rc, out = sh(f'git -C /repo worktree add --detach {wt} HEAD'); assert rc == 0, out
        try:
            rc, out = sh(f'git -C {wt} apply {patch}')
            if rc != 0:
                print(name, 'PATCH DOES NOT APPLY', out[-300:]); continue
            rc, out = sh(f'cd /verif && VERIF_REPO={wt} ./check {pid}', timeout=3600)
            viol = [l for l in out.splitlines() if l.startswith('VIOLATION')]
            res = {'exit': rc, 'violations': viol, 'tail': out[-1500:]}
            rp = re.search(r'replay=(\S+)', ' '.join(viol))
            if rp and os.path.exists(rp.group(1)):
                res['replay'] = json.load(open(rp.group(1)))
            dst = f'/verif/harmless/{name}'
            shutil.rmtree(dst, ignore_errors=True); os.makedirs(dst)
            shutil.copy(patch, dst)
            meta = {}
            try:
                meta = json.load(open(os.path.join(d, 'meta.json')))
            except Exception:
                pass
            meta['check'] = res
            json.dump(meta, open(os.path.join(dst, 'meta.json'), 'w'), indent=1)
            print(name, 'exit', rc, viol[:2])
            rows.append((name, rc))
        finally:
            sh(f'git -C /repo worktree remove --force {wt}'); sh('git -C /repo worktree prune')
print('alarms:', [r for r in rows if r[1] != 0])
