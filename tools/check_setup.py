#!/usr/bin/env python3
"""after setup: every claimed property must have its Properties_<id>.vo (and model driver, if any)"""
import json, os, sys
sys.path.insert(0, '/verif/lib')
import vf
m = json.load(open('/verif/MANIFEST.json'))
bad = []
for c in m['checks']:
    pid = c['property_id']
    if not (vf.COQ / f'Properties_{pid}.vo').exists():
        bad.append(f'Properties_{pid}.vo missing')
    P = vf.load_plugin(pid)
    if getattr(P, 'HARNESS', None) is not None and getattr(P, 'DRIVER', True):
        mid = getattr(P, 'MODEL_ID', pid).lower()
        if not (vf.OCAML / 'bin' / f'{mid}_driver').exists():
            bad.append(f'driver {mid} missing')
print('setup check:', 'ok' if not bad else bad)
sys.exit(1 if bad else 0)
