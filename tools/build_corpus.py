#!/usr/bin/env python3
"""collect the failing cases that the checks reported for the stored seeded changes (seeded/*/meta.json,
confirmation.checks.<ID>.replay.case) into corpus/<ID>.txt; lib/vf.py runs these cases before the generated ones.
Only for the checks that are driven by case lines (not C09 / C20, whose replays name a schedule)."""
import glob, json, os, collections
SKIP = {'C09', 'C20'}
out = collections.OrderedDict()
for f in sorted(glob.glob('/verif/seeded/*/meta.json')):
    m = json.load(open(f))
    name = f.split('/')[-2]
    for cid, c in m.get('confirmation', {}).get('checks', {}).items():
        r = c.get('replay') or {}
        case = r.get('case')
        if not case or cid in SKIP or '\n' in case:
            continue
        out.setdefault(cid, collections.OrderedDict()).setdefault(case.strip(), name)
os.makedirs('/verif/corpus', exist_ok=True)
for cid, cases in out.items():
    with open(f'/verif/corpus/{cid}.txt', 'w') as fh:
        fh.write('# failing cases reported for seeded changes (tools/build_corpus.py); one case per line\n')
        for case, name in cases.items():
            fh.write(case + '\n')
    print(cid, len(cases))
