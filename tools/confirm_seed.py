#!/usr/bin/env python3
"""confirm a seeded breaking change and run the checks against it.
usage: confirm_seed.py <property id> <dir with patch.diff demo.sh meta.json> <name> [extra check ids...]
Creates a scratch worktree of /repo HEAD, applies the patch, builds and runs the baseline tests, runs the demo on the
patched and on the unpatched tree, runs ./check <id> against the patched tree, stores everything under
/verif/seeded/<name>/ and removes the worktree."""
import json, os, re, shutil, subprocess, sys, time
pid, src, name = sys.argv[1], sys.argv[2], sys.argv[3]
extra = sys.argv[4:]
wt = f'/tmp/cs_{name}'
def sh(cmd, **kw):
    p = subprocess.run(cmd, shell=True, stdout=subprocess.PIPE, stderr=subprocess.STDOUT, text=True, errors='replace', **kw)
    return p.returncode, p.stdout
subprocess.run(f'git -C /repo worktree remove --force {wt}', shell=True, capture_output=True)
shutil.rmtree(wt, ignore_errors=True)
rc, out = sh(f'git -C /repo worktree add --detach {wt} HEAD')
assert rc == 0, out
res = {'property': pid, 'name': name}
rc, out = sh(f'git -C {wt} apply {src}/patch.diff')
res['patch_applies'] = rc == 0
if rc != 0:
    print('PATCH DOES NOT APPLY', out); sh(f'git -C /repo worktree remove --force {wt}'); sys.exit(2)
t0 = time.time()
sh(f'cmake -S {wt} -B {wt}/_build -G Ninja')
sh(f'cmake --build {wt}/_build -- -k 0')
rc, out = sh(f'ctest --test-dir {wt}/_build -j8 --timeout 900')
passed = len(re.findall(r' Passed ', out))
failed = [m for m in re.findall(r'- (\S+) \(Failed\)', out)]
res['baseline'] = {'passed': passed, 'failed': failed}
print('baseline tests: passed', passed, 'failed', failed)
rc1, out1 = sh(f'bash {src}/demo.sh {wt}', cwd=src, timeout=900)
rc0, out0 = sh(f'bash {src}/demo.sh /repo', cwd=src, timeout=900)
res['demo'] = {'patched_exit': rc1, 'unpatched_exit': rc0, 'patched_output': out1[-600:], 'unpatched_output': out0[-300:]}
print('demo: patched exit', rc1, ' unpatched exit', rc0)
checks = {}
for cid in [pid] + extra:
    rc, out = sh(f'cd /verif && VERIF_REPO={wt} ./check {cid}', timeout=3000)
    viol = [l for l in out.splitlines() if l.startswith('VIOLATION')]
    checks[cid] = {'exit': rc, 'violations': viol, 'tail': out[-800:]}
    print('check', cid, 'exit', rc, viol[:2])
    rp = re.search(r'replay=(\S+)', ' '.join(viol))
    if rp and os.path.exists(rp.group(1)):
        checks[cid]['replay'] = json.load(open(rp.group(1)))
res['checks'] = checks
dst = f'/verif/seeded/{name}'
shutil.rmtree(dst, ignore_errors=True)
os.makedirs(dst)
for f in os.listdir(src):
    p = os.path.join(src, f)
    if os.path.isfile(p) and os.path.getsize(p) < 200000 and not f.endswith(('.o',)) and os.access(p, os.R_OK):
        if f in ('demo', 'a.out') or (os.access(p, os.X_OK) and not f.endswith('.sh')):
            continue
        shutil.copy(p, dst)
meta = {}
try:
    meta = json.load(open(os.path.join(src, 'meta.json')))
except Exception:
    pass
meta['breaks_property'] = pid
meta['confirmation'] = res
meta['what_i_ran'] = ('scratch worktree of /repo HEAD + patch: cmake configure/build + ctest (baseline), demo.sh on patched '
                      'and unpatched tree, VERIF_REPO=<worktree> ./check ' + ' '.join([pid] + extra))
json.dump(meta, open(os.path.join(dst, 'meta.json'), 'w'), indent=1)
sh(f'git -C /repo worktree remove --force {wt}')
shutil.rmtree(wt, ignore_errors=True)
ok = (passed >= 42 and not [f for f in failed if 'managed_thread' not in f] and rc1 != 0 and rc0 == 0)
print('CONFIRMED' if ok else 'NOT CONFIRMED', '| caught by own check:', checks[pid]['exit'] == 1)
