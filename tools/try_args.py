#!/usr/bin/env python3
"""ad-hoc: run generated handler cases through harness and model, print disagreements"""
import sys
sys.path.insert(0, '/verif/lib'); sys.path.insert(0, '/verif/props')
import vf, args_common as A, args_gen as G
n = int(sys.argv[1]) if len(sys.argv) > 1 else 2000
seed = int(sys.argv[2]) if len(sys.argv) > 2 else 1
rng = vf.Rng(seed)
cases = []; meta = []
stats = {}
while len(cases) < n:
    args, cons = G.gen_config(rng, rng.range(2, 6))
    uses = G.gen_line(rng, args, cons)
    if uses is None:
        continue
    for _ in range(3):
        words = G.spell(rng, uses, args, True, stats)
        cases.append(G.case_line(args, cons, words))
        meta.append(G.expected_store(args, uses))
vf.WORK.mkdir(exist_ok=True)
cf = vf.WORK / 'try_args.txt'
cf.write_text(''.join('c%d %s\n' % (i, c) for i, c in enumerate(cases)))
exe, err = vf.build_harness(A.HARNESS['name'], A.HARNESS['sources'], A.HARNESS['repo_sources'])
assert exe, err
drv = vf.build_driver('ARGS')
im = vf.run_cases(exe, cf, env=A.HARNESS['env'])
mo = vf.run_cases(drv, cf)
bad = 0; notok = 0; wrongval = 0
for i, c in enumerate(cases):
    a, b = im.get('c%d' % i), mo.get('c%d' % i)
    ap = (a or '').split(' ## ')[0]; bp = (b or '').split(' ## ')[0]
    if ap != bp:
        bad += 1
        if bad <= 12:
            print('CASE', c); print('  impl ', a); print('  model', b)
    if not ap.startswith('ok'):
        notok += 1
        if notok <= 6:
            print('NOTOK', c); print('  impl ', a)
    else:
        vals = dict(x.split('=', 1) for x in ap.split(' ')[1:])
        if vals != meta[i]:
            wrongval += 1
            if wrongval <= 6:
                print('WRONGVAL', c); print('  impl ', a); print('  want ', meta[i])
print('cases', len(cases), 'disagree', bad, 'not accepted', notok, 'wrong values', wrongval)
print(stats)
