#!/usr/bin/env python3
"""re-run checks against an already confirmed seeded change (no baseline build, no demo).
usage: recheck_seed.py <seed name> [check ids...]   (default: the seed's own property)
Updates seeded/<name>/meta.json confirmation.checks for the ids run."""
import json, os, re, shutil, subprocess, sys
name = sys.argv[1]
d = f'/verif/seeded/{name}'
meta = json.load(open(f'{d}/meta.json'))
ids = sys.argv[2:] or [meta['breaks_property']]
wt = f'/tmp/rs_{name}'
def sh(cmd, **kw):
    p = subprocess.run(cmd, shell=True, stdout=subprocess.PIPE, stderr=subprocess.STDOUT, text=True, errors='replace', **kw)
    return p.returncode, p.stdout
sh(f'git -C /repo worktree remove --force {wt}'); shutil.rmtree(wt, ignore_errors=True)
rc, out = sh(f'git -C /repo worktree add --detach {wt} HEAD'); assert rc == 0, out
try:
    rc, out = sh(f'git -C {wt} apply {d}/patch.diff'); assert rc == 0, out
    for cid in ids:
        rc, out = sh(f'cd /verif && VERIF_REPO={wt} ./check {cid}', timeout=3000)
        viol = [l for l in out.splitlines() if l.startswith('VIOLATION')]
        c = {'exit': rc, 'violations': viol, 'tail': out[-800:]}
        rp = re.search(r'replay=(\S+)', ' '.join(viol))
        if rp and os.path.exists(rp.group(1)):
            c['replay'] = json.load(open(rp.group(1)))
        old = meta.setdefault('confirmation', {}).setdefault('checks', {}).get(cid)
        if old and old.get('exit') != 1 and rc == 1:
            meta['confirmation'].setdefault('missed_before_strengthening', []).append(cid)
        meta['confirmation']['checks'][cid] = c
        print('check', cid, 'exit', rc, viol[:2])
    own = meta['confirmation']['checks'].get(meta['breaks_property'], {})
    meta['confirmation']['caught_by_own_check'] = own.get('exit') == 1
    json.dump(meta, open(f'{d}/meta.json', 'w'), indent=1)
finally:
    sh(f'git -C /repo worktree remove --force {wt}'); sh('git -C /repo worktree prune')
