#!/usr/bin/env python3
"""regenerate MANIFEST.json from props/*.py (CLAIM dicts) and tools/not_applicable.json"""
import json
import sys
sys.path.insert(0, '/verif/lib')
import vf
checks = []
claimed = set()
for p in sorted((vf.VERIF / 'props').glob('C*.py')):
    P = vf.load_plugin(p.stem)
    c = getattr(P, 'CLAIM', None)
    if not c:
        continue
    claimed.add(P.ID)
    checks.append({
        'property_id': P.ID,
        'quick_cmd': f'./check {P.ID} --tier quick',
        'thorough_cmd': f'./check {P.ID} --tier thorough',
        'evidence_file': f'/verif/evidence/{P.ID}.json',
        'replay_cmd_template': f'./check {P.ID} --replay {{path}}',
        'engine': 'coq-proof+correspondence',
        'level_claimed': {'category': 'proof', 'text': c['text'], 'design_ref': c.get('design_ref', 'DESIGN.md section 5')},
        'level_note': c['note'],
        'technique': c['technique'],
    })
na = json.load(open(vf.VERIF / 'tools' / 'not_applicable.json'))
props = [json.loads(l)['id'] for l in open(vf.VERIF / 'properties.jsonl')]
na_list = [{'property_id': i, 'reason': na.get(i, 'not yet covered by the Coq development; no check is claimed')}
           for i in props if i not in claimed]
hooks = json.load(open(vf.VERIF / 'tools' / 'hooks.json'))
m = {
    'version': 1,
    'setup_cmd': 'make -C /verif setup',
    'hooks': hooks,
    'engines': [
        {'name': 'coq-proof+correspondence', 'path': '/verif/check',
         'serves_properties': sorted(claimed),
         'kind_free_text': 'Coq 8.16.1 theorems over hand-written / regenerated Gallina models (coq/), models extracted '
                           'to OCaml (ocaml/), C++ harnesses compiled from /repo working tree (harness/), seeded and '
                           'small-scope-exhaustive correspondence check (lib/vf.py, props/*.py)'}],
    'checks': checks,
    'not_applicable': na_list,
    'notes': 'See DESIGN.md. Every check: regenerate translated models, full .vo build of Properties_<id>.vo, '
             'Print Assumptions parsed, model extracted and run against the implementation built from /repo.',
}
json.dump(m, open(vf.VERIF / 'MANIFEST.json', 'w'), indent=1)
print('claimed:', sorted(claimed))
