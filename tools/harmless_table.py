#!/usr/bin/env python3
"""print the markdown table of harmless changes and the check results (from harmless/*/meta.json)"""
import json, glob, os
print('| harmless change | file | what was refactored | check result |')
print('|---|---|---|---|')
for d in sorted(glob.glob('/verif/harmless/*')):
    m = json.load(open(os.path.join(d, 'meta.json')))
    c = m.get('check', {})
    res = 'green' if c.get('exit') == 0 else ('ALARM ' + ' '.join(c.get('violations', []))[:80])
    summ = (m.get('summary') or '').replace('\n', ' ').replace('|', '/')
    if len(summ) > 150:
        summ = summ[:147] + '...'
    files = ', '.join(os.path.basename(f) for f in m.get('files_changed', []))[:50]
    print('| %s | %s | %s | %s |' % (os.path.basename(d), files, summ, res))
