#!/usr/bin/env python3
"""build every extracted-model driver (ocaml/<id>_driver.ml)"""
import sys
sys.path.insert(0, '/verif/lib')
import vf
rc = 0
for d in sorted(vf.OCAML.glob('*_driver.ml')):
    pid = d.name[:-len('_driver.ml')].upper()
    try:
        vf.build_driver(pid)
        print('driver', pid, 'ok')
    except Exception as ex:  # noqa
        print('driver', pid, 'FAILED', str(ex)[-500:])
        rc = 1
sys.exit(rc)
