#!/usr/bin/env python3
"""print the markdown table of seeded changes and which checks caught them (from seeded/*/meta.json)"""
import json, glob, os
rows = []
for d in sorted(glob.glob('/verif/seeded/*')):
    m = json.load(open(os.path.join(d, 'meta.json')))
    c = m.get('confirmation', {})
    checks = c.get('checks', {})
    caught = [k for k, v in checks.items() if v.get('exit') == 1]
    missed = [k for k, v in checks.items() if v.get('exit') != 1]
    nofail = [k for k, v in checks.items() if any('no-failing-input-found' in x for x in v.get('violations', []))]
    summ = (m.get('summary') or '').replace('\n', ' ').replace('|', '/')
    if len(summ) > 170:
        summ = summ[:167] + '...'
    files = ', '.join(os.path.basename(f) for f in m.get('files_changed', []))[:60]
    if m.get('obsolete'):
        rows.append('| %s | %s | %s | %s | %s |' % (os.path.basename(d), files, summ,
                                                   'no longer a breaking change since ' + m['obsolete']['since'], '-'))
        continue
    rows.append('| %s | %s | %s | %s | %s |' % (os.path.basename(d), files, summ, ', '.join(caught) or '-',
                                               ', '.join(missed) or '-'))
print('| seeded change | file | what it does | caught by | run but not caught by |')
print('|---|---|---|---|---|')
print('\n'.join(rows))
