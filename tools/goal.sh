#!/bin/bash
# usage: goal.sh <file.v relative to coq/> <line>  : print the goal just before that line
cd /verif/coq
f=$1; n=$2
d=$(mktemp -d)
mkdir -p $d/$(dirname $f)
head -n $((n-1)) $f > $d/$f
echo "Show. Abort." >> $d/$f
timeout 120 coqc -Q . Celma -Q $d Scratch $d/$f 2>&1 | tail -${3:-40}
rm -rf $d
